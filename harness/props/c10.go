package props

import (
	"encoding/json"
	"fmt"
	"math"
	"math/big"
	"sort"

	"github.com/aclements/go-moremath/stats"

	"verifmon/mon"
	"verifmon/ref"
)

// C10 — Sample.Quantile is the Hyndman-Fan type 8 quantile, monotone and
// bounded; IQR; the weighted cumulative-weight rule.
//
// Oracles
//   M-ref   unweighted: q is taken as the exact rational it is, h=(n+1/3)q+1/3
//           in big.Rat, interpolation in 384-bit big.Float (ref.R8). The
//           interpolant is continuous in h, so a correct implementation may
//           differ from it by the effect of a few roundings of h and of the
//           interpolation: tol = 16 eps (h G + M) with G the largest gap of
//           the segment and its two neighbours, M the largest magnitude of
//           the order statistics involved (DESIGN section 4(b); the problem's
//           condition number w.r.t. q is h G / |result|).
//           q<=0 / q>=1: exactly minimum / maximum.
//           weighted: exact cumulative weights in big.Rat; the answer is the
//           first value whose cumulative weight exceeds q W; when q W is
//           within the rounding bound of a correct evaluation (c10WRel: 0,
//           4 eps W or 4 n eps W) of a cumulative weight both neighbouring
//           answers are accepted (ambiguity window).
//   M-law   monotone in q over the sorted q list (slack 4 eps M); within
//           [min,max] and within the closed interval of the two order
//           statistics bracketing h (for any h' within 16 eps (h+1) of h),
//           both with NO slack: a convex combination does not leave the
//           interval, so equal neighbours (and min == max) give that value
//           exactly;
//           identical result for the given order, another permutation, the
//           sorted data with Sorted=true and with Sorted=false, and for three
//           Sample values that went through the library itself: s.Copy(),
//           s.Copy() then Sort(), and a hand-built sample after its own
//           Sort() (whatever state only the library can put into a Sample is
//           then present);
//           IQR() == Quantile(.75) - Quantile(.25) of the same sample
//           (bit-exact, unweighted and weighted).
//   M-hist  the same backing arrays overwritten in place with another sample
//           of equal length (other weights), then two samples alternating
//           through one buffer: every answer is judged against the data the
//           buffer holds at the time of the call. Partial histories
//           (weighted): only the Weights array overwritten (Xs untouched),
//           only the Xs array overwritten (Weights untouched), a second
//           Sample value sharing the Xs slice with other Weights (or with
//           none) and one sharing the Weights slice with other Xs, queried
//           in turn with the owner; run on the worker pool and once more on
//           a single goroutine.
//   M-size  the statement is about any non-empty sample: the same judges
//           (M-ref, M-law, M-hist incl. the partial histories, M-guard) on
//           samples of 201 .. 70 000 (thorough 300 000) values, weighted
//           201 .. 20 000 (70 000): sizes at round numbers (powers of two
//           256..2^18, 500, 1000, 2000, 5000, ..., 200 000) at +0, +1, -1 and
//           up to 32 above, and log-uniform in between. Every such case is a
//           history: queried, the same backing arrays refilled in place,
//           queried again, one alternation round; on the worker pool and once
//           more on a single goroutine (largest round sizes first). The
//           references cost O(1) big operations per q (unweighted) and O(n)
//           rational additions per data set (weighted), so nothing is relaxed.
//   M-near  unweighted: every break point is also approached on a ladder
//           b +- 2^k ulp, k = 0..35 (same tolerance: the interpolant is
//           continuous, a result that is flat near a break point is off by
//           (h-j) G); weighted: every probed cumulative-weight fraction f is
//           also approached at f +- 2 rel 2^k up to 1e-6 (rel the ambiguity
//           window of the data set, 4 eps or 4 n eps) and, on weights whose
//           sums are exact, at f +- 2^k ulp, k = 0..35: outside the window
//           (which is empty when q W is exact too), one answer.
//   M-scale weighted: whole weight vectors times 2^+-40, 2^+-200 (exact): the
//           expected answers are those of the unscaled weights.
//   M-guard Xs and Weights (with canaries before the data and in the spare
//           capacity behind it) are bit-identical after every call.
//   M-panic every call.

type c10Case struct {
	Xs       []mon.F `json:"xs"`
	Ws       []mon.F `json:"ws,omitempty"`
	Weighted bool    `json:"weighted,omitempty"`
	Qs       []mon.F `json:"qs"`
	PermSeed uint64  `json:"perm_seed"`
	// Empty-sample variant bits (only when len(Xs)==0): 1 = Xs non-nil,
	// 2 = Weights non-nil (empty), 4 = Sorted.
	Empty int `json:"empty,omitempty"`
	// The weights presented to the library are Ws * 2^WExp (exact scaling:
	// every answer of the weighted rule is unchanged by construction).
	WExp int `json:"wexp,omitempty"`
	// History (only when len(Xs2)==len(Xs)): after all queries on (Xs,Ws)
	// the SAME backing arrays are overwritten in place with (Xs2, Ws2 *
	// 2^WExp2) and queried at Qs2; then the two samples alternate Alt times
	// through each buffer in turn, queried at the first interior q of Qs2.
	Xs2   []mon.F `json:"xs2,omitempty"`
	Ws2   []mon.F `json:"ws2,omitempty"`
	Qs2   []mon.F `json:"qs2,omitempty"`
	WExp2 int     `json:"wexp2,omitempty"`
	Alt   int     `json:"alt,omitempty"`
	// Partial history (weighted, Part != 0, len(Xs2)==len(Ws2)==len(Xs)):
	// after the queries on (Xs,Ws), on every presentation in turn: only the
	// Weights array is overwritten in place (with Ws2 * 2^WExp2, Xs
	// untouched); a second Sample value shares the Xs slice with another
	// Weights slice, and an unweighted one shares it too; only the Xs array
	// is overwritten (with Xs2, Weights untouched); a second Sample value
	// shares the Weights slice with another Xs slice. Queried at Qs2 / its
	// first interior points; every answer is judged against what the queried
	// Sample value holds at the time of the call.
	Part int `json:"part,omitempty"`
}

func init() {
	mon.Register(&mon.Prop{ID: "C10", Run: c10Run, Replay: func(w *mon.W, v *mon.ViolationRec) {
		var c c10Case
		if json.Unmarshal(v.Case, &c) == nil {
			c10Judge(w, c)
		}
	}})
}

const (
	c10Eps  = 1.0 / (1 << 52)
	c10Tiny = 8 * 5e-324
	c10Pad  = 8
)

var c10Canary = math.Float64frombits(0x7ff8c10c10c10c10) // a NaN with a payload

// c10Guarded is one presentation of a sample to the library: the data sit in
// the middle of a larger backing array whose other cells hold canaries.
type c10Guarded struct {
	name   string
	s      stats.Sample
	bufX   []float64
	bufW   []float64
	snapX  []uint64
	snapW  []uint64
	sorted bool
	n      int // number of data points
	offX   int // where the data start in bufX / bufW (0 for arrays the library allocated)
	offW   int
	ak     int // arrangement (0 given, 1 sorted, 3 permuted) a history step loads into it
}

func c10Guard(vals []float64) (view, buf []float64, snap []uint64) {
	n := len(vals)
	buf = make([]float64, n+2*c10Pad)
	for i := range buf {
		buf[i] = c10Canary
	}
	copy(buf[c10Pad:], vals)
	snap = make([]uint64, len(buf))
	for i, v := range buf {
		snap[i] = math.Float64bits(v)
	}
	// len n, capacity n+c10Pad: the trailing canaries are spare capacity
	return buf[c10Pad : c10Pad+n], buf, snap
}

func c10Present(name string, xs, ws []float64, sorted bool) *c10Guarded {
	g := &c10Guarded{name: name, sorted: sorted, n: len(xs), offX: c10Pad, offW: c10Pad}
	g.s.Xs, g.bufX, g.snapX = c10Guard(xs)
	if ws != nil {
		g.s.Weights, g.bufW, g.snapW = c10Guard(ws)
	}
	g.s.Sorted = sorted
	return g
}

func c10Snap(buf []float64) []uint64 {
	snap := make([]uint64, len(buf))
	for i, v := range buf {
		snap[i] = math.Float64bits(v)
	}
	return snap
}

// c10Adopt wraps a Sample value the LIBRARY produced (Copy, Sort): the whole
// struct value is kept, including whatever unexported state the library put
// into it; its arrays are watched as they are (no canaries).
func c10Adopt(name string, p *stats.Sample) *c10Guarded {
	g := &c10Guarded{name: name, s: *p, sorted: p.Sorted, n: len(p.Xs)}
	g.bufX, g.snapX = g.s.Xs, c10Snap(g.s.Xs)
	if g.s.Weights != nil {
		g.bufW, g.snapW = g.s.Weights, c10Snap(g.s.Weights)
	}
	return g
}

// resnap re-arms the guard after a permitted change of the arrays.
func (g *c10Guarded) resnap() {
	for i, v := range g.bufX {
		g.snapX[i] = math.Float64bits(v)
	}
	for i, v := range g.bufW {
		g.snapW[i] = math.Float64bits(v)
	}
	g.sorted = g.s.Sorted
}

// shareXs is a second Sample value over the SAME Xs slice with its own
// Weights (nil: an unweighted view).
func (g *c10Guarded) shareXs(name string, ws []float64) *c10Guarded {
	t := &c10Guarded{name: name, sorted: g.s.Sorted, n: g.n, offX: g.offX, offW: c10Pad, ak: g.ak}
	t.s.Xs, t.bufX, t.snapX = g.s.Xs, g.bufX, g.snapX
	if ws != nil {
		t.s.Weights, t.bufW, t.snapW = c10Guard(ws)
	}
	t.s.Sorted = g.s.Sorted
	return t
}

// shareWs is a second Sample value over the SAME Weights slice with its own Xs.
func (g *c10Guarded) shareWs(name string, xs []float64) *c10Guarded {
	t := &c10Guarded{name: name, sorted: g.s.Sorted, n: g.n, offX: c10Pad, offW: g.offW, ak: g.ak}
	t.s.Xs, t.bufX, t.snapX = c10Guard(xs)
	t.s.Weights, t.bufW, t.snapW = g.s.Weights, g.bufW, g.snapW
	t.s.Sorted = g.s.Sorted
	return t
}

// rearmed is a fresh private hand-built copy of what g holds now (used after
// a reported modification so that one defect is not reported once per call).
func (g *c10Guarded) rearmed() *c10Guarded {
	var ws []float64
	if g.s.Weights != nil {
		ws = append([]float64(nil), g.s.Weights...)
	}
	r := c10Present(g.name, append([]float64(nil), g.s.Xs...), ws, g.sorted)
	r.ak = g.ak
	return r
}

// intact reports the first modified cell, if any.
func (g *c10Guarded) intact() (bool, string) {
	for i, b := range g.snapX {
		if math.Float64bits(g.bufX[i]) != b {
			return false, fmt.Sprintf("Xs backing cell %d (data starts at %d, len %d) changed from %v to %v", i, g.offX, len(g.s.Xs), math.Float64frombits(b), g.bufX[i])
		}
	}
	for i, b := range g.snapW {
		if math.Float64bits(g.bufW[i]) != b {
			return false, fmt.Sprintf("Weights backing cell %d (data starts at %d, len %d) changed from %v to %v", i, g.offW, len(g.s.Weights), math.Float64frombits(b), g.bufW[i])
		}
	}
	if len(g.s.Xs) != g.n || (g.bufW != nil && len(g.s.Weights) != g.n) || (g.bufW == nil) != (g.s.Weights == nil) || g.s.Sorted != g.sorted {
		return false, "Sample header changed"
	}
	return true, ""
}

func c10Same(a, b float64) bool { return a == b || (a != a && b != b) }

func c10SortedQs(qs []mon.F) []float64 {
	out := mon.Un(qs)
	sort.Float64s(out)
	return out
}

func c10Permute(xs, ws []float64, seed uint64) (px, pw []float64) {
	p := mon.NewRand(seed, 0xc10).Perm(len(xs))
	px = make([]float64, len(xs))
	if ws != nil {
		pw = make([]float64, len(ws))
	}
	for i, k := range p {
		px[i] = xs[k]
		if ws != nil {
			pw[i] = ws[k]
		}
	}
	return
}

func c10Judge(w *mon.W, c c10Case) {
	switch {
	case len(c.Xs) == 0:
		c10JudgeEmpty(w, c)
	case c.Weighted:
		c10JudgeWeighted(w, c)
	default:
		c10JudgeUnweighted(w, c)
	}
}

// load overwrites the presented sample IN PLACE (same backing arrays, same
// slice headers) with other data of the same length and re-arms the guard.
func (g *c10Guarded) load(xs, ws []float64) {
	g.loadX(xs)
	if g.bufW != nil {
		g.loadW(ws)
	}
}

// loadX overwrites only the values, loadW only the weights.
func (g *c10Guarded) loadX(xs []float64) {
	copy(g.s.Xs, xs)
	for i, v := range g.bufX {
		g.snapX[i] = math.Float64bits(v)
	}
}

func (g *c10Guarded) loadW(ws []float64) {
	copy(g.s.Weights, ws)
	for i, v := range g.bufW {
		g.snapW[i] = math.Float64bits(v)
	}
}

// c10Plain strips the history of a case: a violation in the first phase does
// not depend on what is presented afterwards.
func c10Plain(c c10Case) c10Case {
	c.Xs2, c.Ws2, c.Qs2, c.Alt, c.WExp2, c.Part = nil, nil, nil, 0, 0, 0
	return c
}

const (
	c10TagReuse = " [same buffers overwritten in place with another sample of equal length]"
	c10TagAlt   = " [two samples alternating through one buffer]"
)

// ---------------------------------------------------------------- unweighted

type c10Pt struct {
	q    float64
	info ref.R8Info
	tol  float64
	got  float64
	ok   bool
}

func c10Tol(info ref.R8Info) float64 {
	// (16 eps h) G first: h G alone can overflow for |x| ~ 1e307
	return (16*c10Eps*(math.Abs(info.H)+1))*info.Gap + 16*c10Eps*info.Mag + c10Tiny
}

// c10UData is one unweighted data set with its reference-side quantities.
type c10UData struct {
	xs, sorted, px []float64
	min, max       float64
	memo           map[float64]ref.R8Info
}

func c10NewUData(xs []float64, permSeed uint64) *c10UData {
	d := &c10UData{xs: xs, memo: map[float64]ref.R8Info{}}
	d.sorted = append([]float64(nil), xs...)
	sort.Float64s(d.sorted)
	d.min, d.max = d.sorted[0], d.sorted[len(xs)-1]
	d.px, _ = c10Permute(xs, nil, permSeed)
	return d
}

func (d *c10UData) r8(q float64) ref.R8Info {
	if i, ok := d.memo[q]; ok {
		return i
	}
	i := ref.R8(d.sorted, q)
	d.memo[q] = i
	return i
}

// arr is the arrangement of the data that presentation kind k shows.
func (d *c10UData) arr(k int) []float64 {
	switch k {
	case 0:
		return d.xs
	case 3:
		return d.px
	}
	return d.sorted
}

var c10PresNames = []string{"given order, Sorted=false", "sorted data, Sorted=true", "sorted data, Sorted=false", "another permutation, Sorted=false"}

// c10BuildPres presents one data set in every way the monitor knows: four
// structs filled in by hand and three Sample values that went through the
// library's own Copy / Sort (so that whatever state only the library can put
// into a Sample is present when Quantile runs). arr(k) is the arrangement k of
// the data (0 given, 1 and 2 sorted, 3 permuted). The sources of the
// library-built presentations are private copies.
func c10BuildPres(w *mon.W, arr func(k int) (xs, ws []float64), permSeed uint64, sub func(...float64) c10Case) []*c10Guarded {
	pres := make([]*c10Guarded, 0, 7)
	for k := 0; k < 4; k++ {
		ax, aw := arr(k)
		g := c10Present(c10PresNames[k], ax, aw, k == 1)
		g.ak = k
		if k == 2 {
			g.ak = 1
		}
		pres = append(pres, g)
	}
	build := func(name, class string, srcK int, sorts bool, f func(src *c10Guarded) *c10Guarded) {
		ax, aw := arr(srcK)
		src := c10Present(name, ax, aw, srcK == 1)
		var g *c10Guarded
		w.Eval("Copy/Sort(building a presentation)")
		if p, v := mon.Call(func() { g = f(src) }); p {
			w.Violate("panic", fmt.Sprintf("building the presentation %q of n=%d panicked: %v", name, len(ax), v), sub())
			return
		}
		g.name = name
		switch {
		case g.s.Sorted:
			g.ak = 1
		case sorts:
			// Sort left the flag unset: nothing says how the data are
			// arranged now; with the flag unset any arrangement is valid
			g.ak = 0
			g.load(arr(0))
		default:
			g.ak = srcK
		}
		w.Note(class)
		pres = append(pres, g)
	}
	if permSeed>>60&1 == 0 {
		build("library Copy() of the given-order sample", "library-built(Copy)", 0, false, func(src *c10Guarded) *c10Guarded {
			return c10Adopt("", src.s.Copy())
		})
	} else {
		build("library Copy() of the sorted, Sorted=true sample", "library-built(Copy)", 1, false, func(src *c10Guarded) *c10Guarded {
			return c10Adopt("", src.s.Copy())
		})
	}
	build("library Copy() then Sort() of an unsorted-flag sample", "library-built(Copy+Sort)", []int{3, 0}[permSeed>>61&1], true, func(src *c10Guarded) *c10Guarded {
		p := src.s.Copy()
		p.Sort()
		return c10Adopt("", p)
	})
	build("hand-built Sorted=false sample after its own Sort()", "library-built(Sort in place)", []int{0, 3}[permSeed>>62&1], true, func(src *c10Guarded) *c10Guarded {
		src.s.Sort()
		src.resnap()
		return src
	})
	return pres
}

func c10JudgeUnweighted(w *mon.W, c c10Case) {
	xs := mon.Un(c.Xs)
	n := len(xs)
	d := c10NewUData(xs, c.PermSeed)

	repeats := false
	for i := 1; i < n; i++ {
		if d.sorted[i] == d.sorted[i-1] {
			repeats = true
		}
	}
	w.HitIf(n == 1, "n=1")
	w.HitIf(n == 2, "n=2")
	w.HitIf(n >= 150, "n>=150")
	c10HitLarge(w, n, "")
	w.HitIf(repeats, "repeats")
	w.HitIf(d.min == d.max && n > 1, "all-equal")
	w.HitIf(!sort.Float64sAreSorted(xs), "unsorted-input")
	w.HitIf(n > 1 && (d.min > 1e307 || d.max < -1e307), "huge-same-sign(|x|>1e307)")
	w.Note("unweighted")

	plain := c10Plain(c)
	subA := func(qq ...float64) c10Case {
		s := plain
		s.Qs = mon.Fs(qq)
		return s
	}
	pres := c10BuildPres(w, func(k int) ([]float64, []float64) { return d.arr(k), nil }, c.PermSeed, subA)
	c10UPhase(w, d, c10SortedQs(c.Qs), pres, subA, "")

	// history: the same buffers, other contents
	if len(c.Xs2) == n {
		d2 := c10NewUData(mon.Un(c.Xs2), c.PermSeed^0x9e3779b97f4a7c15)
		whole := func(...float64) c10Case { return c }
		w.Hit("buffer-reuse(in-place overwrite)")
		w.HitIf(n > 1000, "large-buffer-reuse(n>1000)")
		w.HitIf(n >= 4096, "large-buffer-reuse(n>=4096)")
		for _, g := range pres {
			g.load(d2.arr(g.ak), nil)
		}
		c10UPhase(w, d2, c10SortedQs(c.Qs2), pres, whole, c10TagReuse)
		// two samples alternating through each buffer in turn; every
		// query directly follows the overwrite of the buffer it reads
		if c.Alt > 0 {
			w.Hit("buffer-alternation")
			aq := c10AltQs(c.Qs2)
			for _, g := range pres {
				for r := 0; r < c.Alt && r < 8; r++ {
					g.load(d.arr(g.ak), nil)
					c10UPhase(w, d, aq, []*c10Guarded{g}, whole, c10TagAlt)
					g.load(d2.arr(g.ak), nil)
					c10UPhase(w, d2, aq, []*c10Guarded{g}, whole, c10TagAlt)
				}
			}
		}
		w.Distinct(mon.NewHasher().Fs(xs).Fs(d2.xs).Fs(mon.Un(c.Qs)).Fs(mon.Un(c.Qs2)).Sum())
		return
	}
	w.Distinct(mon.NewHasher().Fs(xs).Fs(c10SortedQs(c.Qs)).Sum())
}

// c10AltQs picks the (at most three) interior query points of the
// alternation rounds, ascending.
func c10AltQs(qs []mon.F) []float64 {
	var out []float64
	for _, q := range mon.Un(qs) {
		if q > 0 && q < 1 && len(out) < 3 {
			out = append(out, q)
		}
	}
	if len(out) == 0 {
		out = []float64{0.5}
	}
	sort.Float64s(out)
	return out
}

// c10UPhase queries every q of qs (ascending) on every presentation of pres,
// all of which currently hold data set d, and applies all oracles. The first
// presentation is judged against the reference, the others against the first.
func c10UPhase(w *mon.W, d *c10UData, qs []float64, pres []*c10Guarded, sub func(...float64) c10Case, tag string) {
	n := len(d.xs)
	min, max := d.min, d.max
	rearm := func(g *c10Guarded) {
		// re-arm so that one defect is not reported once per later call
		*g = *g.rearmed()
	}
	// call performs one guarded Quantile call on presentation g
	call := func(g *c10Guarded, q float64) (float64, bool) {
		var got float64
		w.Eval("Quantile")
		if p, v := mon.Call(func() { got = g.s.Quantile(q) }); p {
			w.Violate("panic", fmt.Sprintf("Quantile(%v) panicked on n=%d (%s): %v%s", q, n, g.name, v, tag), sub(q))
			return 0, false
		}
		if ok, what := g.intact(); !ok {
			w.Violate("sample-modified", fmt.Sprintf("Quantile(%v) on n=%d (%s) modified its receiver: %s%s", q, n, g.name, what, tag), sub(q))
			rearm(g)
		}
		return got, true
	}

	pts := make([]c10Pt, 0, len(qs))
	for _, q := range qs {
		info := d.r8(q)
		pt := c10Pt{q: q, info: info, tol: c10Tol(info)}
		inside := q > 0 && q < 1
		w.HitIf(q < 0, "q<0")
		w.HitIf(q > 1, "q>1")
		w.HitIf(q == 0 || q == 1, "q=0|1")
		w.HitIf(inside && info.Lo, "clamp-low(h<1)")
		w.HitIf(inside && info.Hi, "clamp-high(h>=n)")
		w.HitIf(inside && info.Integer, "h-exact-integer")
		w.HitIf(inside && n > 1 && info.BLo == info.BHi && !info.Lo && !info.Hi, "equal-neighbours(exact answer)")
		if inside && !info.Integer {
			// q is the float nearest to a break point, or one of its neighbours
			for _, j := range []int{info.J, info.J + 1} {
				if j >= 1 && j <= n {
					b, _ := ref.BreakQ(n, j)
					if q == b || q == math.Nextafter(b, 2) || q == math.Nextafter(b, -1) {
						w.Hit("q-at-break(+-1ulp)")
						break
					}
					// both are positive floats: the difference of their bit
					// patterns is their distance in ulps
					if dist := int64(math.Float64bits(q)) - int64(math.Float64bits(b)); (dist > 1 && dist <= 1<<35) || (dist < -1 && dist >= -(1<<35)) {
						w.Hit("q-near-break(2..2^35 ulp)")
						break
					}
				}
			}
		}

		got, ok := call(pres[0], q)
		pt.got, pt.ok = got, ok
		if ok {
			want := ref.F64(info.Val)
			switch {
			case q <= 0:
				if !c10Same(got, min) {
					w.Violate("q<=0", fmt.Sprintf("Quantile(%v)=%v, minimum is %v (n=%d)%s", q, got, min, n, tag), sub(q))
				}
			case q >= 1:
				if !c10Same(got, max) {
					w.Violate("q>=1", fmt.Sprintf("Quantile(%v)=%v, maximum is %v (n=%d)%s", q, got, max, n, tag), sub(q))
				}
			default:
				var dd float64
				if math.IsNaN(got) || math.IsInf(got, 0) {
					dd = math.NaN()
				} else {
					dd = ref.F64(ref.Abs(ref.Sub(ref.NF(got), info.Val)))
				}
				oracle := "R8"
				if info.Mag < 1e-290 {
					oracle = "R8(subnormal data)" // keeps the margin statistic of the normal range readable
				}
				if !w.Err(oracle, dd, pt.tol) {
					w.Violate("R8", fmt.Sprintf("Quantile(%v)=%.17g on n=%d, type 8 estimate is %.17g (h=%.17g, floor %d; |diff|=%.3g > tol %.3g)%s", q, got, n, want, info.H, info.J, dd, pt.tol, tag), sub(q))
				}
				// the estimate is a convex combination of two order
				// statistics: it cannot leave their closed interval, nor
				// [min,max]; no slack (the tolerance above is only for the
				// distance to the exact interpolant)
				if !math.IsNaN(got) {
					w.Eval("bracket")
					if got < min || got > max {
						w.Violate("bounds", fmt.Sprintf("Quantile(%v)=%.17g outside [min,max]=[%.17g,%.17g] (n=%d)%s", q, got, min, max, n, tag), sub(q))
					} else if got < info.BLo || got > info.BHi {
						if info.BLo == info.BHi {
							w.Violate("bracket", fmt.Sprintf("Quantile(%v)=%.17g on n=%d, but the order statistics around h=%.17g all equal %.17g: the estimate is that value exactly%s", q, got, n, info.H, info.BLo, tag), sub(q))
						} else {
							w.Violate("bracket", fmt.Sprintf("Quantile(%v)=%.17g on n=%d is outside [%.17g,%.17g], the order statistics bracketing h=%.17g (+-16 eps)%s", q, got, n, info.BLo, info.BHi, info.H, tag), sub(q))
						}
					}
				}
			}
			if w.WantSample() && inside && !info.Lo && !info.Hi && n > 2 {
				w.Sample(map[string]any{"n": n, "q": q, "h": info.H, "Quantile": got, "R8_ref": want, "tol": pt.tol})
			}
		}
		// invariance: every other presentation returns the identical value
		for _, g := range pres[1:] {
			g2, ok2 := call(g, q)
			if ok && ok2 && !c10Same(g2, got) {
				kind := "order-dependence"
				if g.sorted {
					kind = "sorted-flag"
				}
				w.Violate(kind, fmt.Sprintf("Quantile(%v) on n=%d: %.17g for %s but %.17g for %s%s", q, n, got, pres[0].name, g2, g.name, tag), sub(q))
			}
		}
		pts = append(pts, pt)
	}
	// monotone in q (q list is sorted)
	for i := 1; i < len(pts); i++ {
		a, b := pts[i-1], pts[i]
		if !a.ok || !b.ok || math.IsNaN(a.got) || math.IsNaN(b.got) {
			continue
		}
		slack := 4*c10Eps*math.Max(a.info.Mag, b.info.Mag) + c10Tiny
		w.Eval("monotone-pair")
		if a.got > b.got {
			if !w.Err("monotone-slack", a.got-b.got, slack) {
				w.Violate("monotone", fmt.Sprintf("Quantile(%v)=%.17g > Quantile(%v)=%.17g (n=%d)%s", a.q, a.got, b.q, b.got, n, tag), sub(a.q, b.q))
			}
		}
	}

	// IQR on every presentation
	i75, i25 := d.r8(0.75), d.r8(0.25)
	wantIQR := ref.Sub(i75.Val, i25.Val)
	tolIQR := c10Tol(i75) + c10Tol(i25) + 4*c10Eps*math.Abs(ref.F64(wantIQR))
	for _, g := range pres {
		var iqr float64
		w.Eval("IQR")
		if p, v := mon.Call(func() { iqr = g.s.IQR() }); p {
			w.Violate("panic", fmt.Sprintf("IQR panicked on n=%d (%s): %v%s", n, g.name, v, tag), sub())
			continue
		}
		if ok, what := g.intact(); !ok {
			w.Violate("sample-modified", fmt.Sprintf("IQR on n=%d (%s) modified its receiver: %s%s", n, g.name, what, tag), sub())
			rearm(g)
		}
		q75, ok1 := call(g, 0.75)
		q25, ok2 := call(g, 0.25)
		if ok1 && ok2 && !c10Same(iqr, q75-q25) {
			w.Violate("IQR-law", fmt.Sprintf("IQR()=%.17g but Quantile(.75)-Quantile(.25)=%.17g-%.17g=%.17g (n=%d, %s)%s", iqr, q75, q25, q75-q25, n, g.name, tag), sub())
		}
		var dd float64
		if math.IsNaN(iqr) || math.IsInf(iqr, 0) {
			dd = math.NaN()
		} else {
			dd = ref.F64(ref.Abs(ref.Sub(ref.NF(iqr), wantIQR)))
		}
		oracle := "IQR-ref"
		if math.Max(i75.Mag, i25.Mag) < 1e-290 {
			oracle = "IQR-ref(subnormal data)"
		}
		if !w.Err(oracle, dd, tolIQR) {
			w.Violate("IQR-ref", fmt.Sprintf("IQR()=%.17g on n=%d (%s), type 8 quartile difference is %.17g%s", iqr, n, g.name, ref.F64(wantIQR), tag), sub())
		}
	}
}

// ------------------------------------------------------------------ weighted

// c10WData is one weighted data set with its reference-side quantities.
type c10WData struct {
	xs, ws, sx, sw, px, pw []float64
	wq                     *ref.WQ
	rel                    float64 // ambiguity window of a q whose product q W is not exact (see c10WRel)
	intW                   bool
	cumF                   []float64 // cumulative-weight fractions, rounded (classes only)
}

// c10Scale returns ws * 2^e and whether every product is exact, finite and
// normal (then all answers of the weighted rule are unchanged).
func c10Scale(ws []float64, e int) ([]float64, bool) {
	out := make([]float64, len(ws))
	exact := true
	for i, x := range ws {
		out[i] = math.Ldexp(x, e)
		if math.IsInf(out[i], 0) || math.Abs(out[i]) < 0x1p-1000 || math.Ldexp(out[i], -e) != x {
			exact = false
		}
	}
	return out, exact
}

// c10NewWData returns nil when the weights are outside the statement's
// domain (positive, finite) or the lengths differ.
func c10NewWData(xs, base []float64, wexp int, permSeed uint64) *c10WData {
	n := len(xs)
	if len(base) != n {
		return nil
	}
	ws, _ := c10Scale(base, wexp)
	return c10BuildWData(xs, ws, permSeed)
}

// c10WRel is the relative half-width (in units of W) of the weighted
// ambiguity window: how far the computed comparison "cumulative weight > q W"
// of a correct implementation can be from the real one. u = eps/2.
//
//   - General weights. Summing W in any order: |W'-W| <= (n-1) u W. The
//     product fl(q W'): one more u. Deciding position k needs either a
//     computed cumulative weight (k-1 additions, <= (n-1) u W; the same from
//     the top as W' - suffix), or k subtractions from the target as the library
//     does (every intermediate is at most W in magnitude: <= k u W); pairwise
//     or compensated sums err less. Together <= (2n-1) u W + O(u^2) < n eps W.
//     A comparison of fl(cum/W') with q, or a scan from the top against
//     fl((1-q) W'), adds at most 2 u W. The window is 4 n eps W: four times
//     the first-order worst case (the old constant 1e-12 was 70 times the
//     bound at n = 4 and hid a quantisation of q to 12 decimals).
//   - Grid weights (ref.WQ.Grid: all on one binary grid with W <= 2^53 grid
//     steps; small integers, dyadic fractions, either times a power of two).
//     No sum of weights rounds, whatever the order. What is left is the
//     rounding of the product (u q W), of a quotient cum/W (u), or of 1-q and
//     (1-q) W (1.5 u W), none of which grows with n; subtracting grid sums
//     from a float target is exact while the difference is positive and
//     sign-preserving when it turns negative. Window 4 eps W = 8 u W.
//   - Grid weights and q W, 1-q, (1-q) W all exactly representable: every
//     one of those evaluations computes with the real numbers themselves.
//     Window 0: the statement's "exceeds" is judged strictly, on a tie and
//     any number of ulps beside it.
func (d *c10WData) c10WRel(q float64) float64 {
	if !(q > 0 && q < 1) {
		return 0
	}
	if prod, compl := d.wq.QExact(q); prod && compl {
		return 0
	}
	return d.rel
}

// c10WBaseRel is the window of a data set for a q with an inexact product.
func c10WBaseRel(wq *ref.WQ, n int) float64 {
	if wq.Grid {
		return 4 * c10Eps
	}
	return 4 * float64(n) * c10Eps
}

// c10BuildWData: ws are the weights as presented (already scaled).
func c10BuildWData(xs, ws []float64, permSeed uint64) *c10WData {
	n := len(xs)
	if len(ws) != n {
		return nil
	}
	for _, wt := range ws {
		if !(wt > 0) || math.IsInf(wt, 0) {
			return nil
		}
	}
	d := &c10WData{xs: xs, ws: ws, wq: ref.NewWQ(xs, ws)}
	d.rel = c10WBaseRel(d.wq, n)
	tw, _ := d.wq.W.Float64()
	d.cumF = make([]float64, len(d.wq.Cum))
	for k, cw := range d.wq.Cum {
		f, _ := cw.Float64()
		d.cumF[k] = f / tw
	}
	// sorted presentation (stable: the reference side's own ordering)
	idx := make([]int, n)
	for i := range idx {
		idx[i] = i
	}
	sort.SliceStable(idx, func(a, b int) bool { return xs[idx[a]] < xs[idx[b]] })
	d.sx, d.sw = make([]float64, n), make([]float64, n)
	d.intW = true
	for i, k := range idx {
		d.sx[i], d.sw[i] = xs[k], ws[k]
		if ws[k] != math.Floor(ws[k]) {
			d.intW = false
		}
	}
	d.px, d.pw = c10Permute(xs, ws, permSeed)
	return d
}

// besideCum: q is within max of a cumulative-weight fraction, more than rel
// and more than 3/4 ulp away from it (cumF is rounded: not the fraction itself).
func (d *c10WData) besideCum(q, rel, max float64) bool {
	k := sort.SearchFloat64s(d.cumF, q)
	for _, j := range []int{k - 1, k} {
		if j >= 0 && j < len(d.cumF) {
			if dist := math.Abs(q - d.cumF[j]); dist > rel && dist > 0.75*(math.Nextafter(q, 2)-q) && dist <= max {
				return true
			}
		}
	}
	return false
}

func (d *c10WData) arr(k int) (xs, ws []float64) {
	switch k {
	case 0:
		return d.xs, d.ws
	case 3:
		return d.px, d.pw
	}
	return d.sx, d.sw
}

// tieAt reports whether q*W is exactly a cumulative weight (reference side).
func (d *c10WData) tieAt(q float64) bool {
	t := new(big.Rat).Mul(new(big.Rat).SetFloat64(q), d.wq.W)
	for _, cw := range d.wq.Cum {
		if cw.Cmp(t) == 0 {
			return true
		}
	}
	return false
}

func c10JudgeWeighted(w *mon.W, c c10Case) {
	xs := mon.Un(c.Xs)
	n := len(xs)
	d := c10NewWData(xs, mon.Un(c.Ws), c.WExp, c.PermSeed)
	if d == nil {
		return // outside the statement's domain
	}
	w.HitIf(d.wq.Ties, "weighted-ties")
	w.HitIf(d.intW, "weighted-integer")
	w.HitIf(!d.intW, "weighted-real")
	w.HitIf(n == 1, "weighted-n=1")
	c10HitLarge(w, n, "weighted-")
	w.HitIf(!sort.Float64sAreSorted(xs), "weighted-unsorted-input")
	w.HitIf(c.WExp <= -40, "weights-scaled-down(2^-40|2^-200)")
	w.HitIf(c.WExp >= 40, "weights-scaled-up(2^40|2^200)")

	plain := c10Plain(c)
	subA := func(qq ...float64) c10Case {
		s := plain
		s.Qs = mon.Fs(qq)
		return s
	}
	pres := c10BuildPres(w, d.arr, c.PermSeed, subA)
	c10WPhase(w, d, c10SortedQs(c.Qs), pres, subA, "")

	if c.Part != 0 && len(c.Xs2) == n && len(c.Ws2) == n {
		w.HitIf(n > 1000, "large-partial-history(n>1000)")
		w.HitIf(n >= 4096, "large-partial-history(n>=4096)")
		c10WPartial(w, c, d, pres)
		return
	}

	if len(c.Xs2) == n {
		d2 := c10NewWData(mon.Un(c.Xs2), mon.Un(c.Ws2), c.WExp2, c.PermSeed^0x9e3779b97f4a7c15)
		if d2 != nil {
			whole := func(...float64) c10Case { return c }
			w.Hit("buffer-reuse-weighted(in-place overwrite)")
			w.HitIf(n > 1000, "large-buffer-reuse-weighted(n>1000)")
			w.HitIf(n >= 4096, "large-buffer-reuse-weighted(n>=4096)")
			for _, g := range pres {
				g.load(d2.arr(g.ak))
			}
			c10WPhase(w, d2, c10SortedQs(c.Qs2), pres, whole, c10TagReuse)
			if c.Alt > 0 {
				aq := c10AltQs(c.Qs2)
				for _, g := range pres {
					for r := 0; r < c.Alt && r < 8; r++ {
						g.load(d.arr(g.ak))
						c10WPhase(w, d, aq, []*c10Guarded{g}, whole, c10TagAlt)
						g.load(d2.arr(g.ak))
						c10WPhase(w, d2, aq, []*c10Guarded{g}, whole, c10TagAlt)
					}
				}
			}
			w.Distinct(mon.NewHasher().Fs(xs).Fs(d.ws).Fs(d2.xs).Fs(d2.ws).Fs(mon.Un(c.Qs)).Fs(mon.Un(c.Qs2)).Sum())
			return
		}
	}
	w.Distinct(mon.NewHasher().Fs(xs).Fs(d.ws).Fs(c10SortedQs(c.Qs)).Sum())
}

const (
	c10TagPrime  = " [before a partial overwrite]"
	c10TagWOnly  = " [only the Weights array overwritten in place, Xs untouched]"
	c10TagXOnly  = " [only the Xs array overwritten in place, Weights untouched]"
	c10TagShareX = " [a second Sample value sharing the Xs slice, with its own Weights]"
	c10TagShareW = " [a second Sample value sharing the Weights slice, with its own Xs]"
	c10TagOwner  = " [queried in turn with a second Sample value that shares one of its slices]"
	c10TagUView  = " [an unweighted Sample value sharing the Xs slice of a weighted one]"
)

// c10WPartial is the partial history of a weighted case (see c10Case.Part).
// d is the data set every presentation of pres holds on entry.
func c10WPartial(w *mon.W, c c10Case, d *c10WData, pres []*c10Guarded) {
	xs2 := mon.Un(c.Xs2)
	dA := c10NewWData(d.xs, mon.Un(c.Ws2), c.WExp2, c.PermSeed) // same values (same arrangements), other weights
	if dA == nil {
		return
	}
	sx2 := append([]float64(nil), xs2...)
	sort.Float64s(sx2)
	du := c10NewUData(d.xs, c.PermSeed)
	whole := func(...float64) c10Case { return c }
	aq := c10AltQs(c.Qs2)
	qs2 := c10SortedQs(c.Qs2)
	one := func(g *c10Guarded) []*c10Guarded { return []*c10Guarded{g} }
	// three of the presentations: one that makes Quantile sort a copy, one
	// with sorted data filled in by hand (or a library Copy), one that the
	// library sorted
	var sel []*c10Guarded
	for _, k := range []int{[]int{0, 3}[c.PermSeed>>50&1], []int{1, 2, 4}[c.PermSeed>>51%3], []int{5, 6}[c.PermSeed>>54&1]} {
		if k < len(pres) {
			sel = append(sel, pres[k])
		}
	}
	for _, g := range sel {
		ax, aw := d.arr(g.ak) // g holds the values ax (its weights are some valid pairing of d)
		_, awA := dA.arr(g.ak)
		c10WPhase(w, d, aq, one(g), whole, c10TagPrime)

		// same Xs, new Weights
		w.Hit("weights-only-overwrite(Xs untouched)")
		g.loadW(awA)
		c10WPhase(w, dA, qs2, one(g), whole, c10TagWOnly)

		// a second value over the same Xs with the first weights; the two
		// are queried in turn
		w.Hit("shared-Xs-second-sample")
		t := g.shareXs(g.name+", Xs slice shared", aw)
		for r := 0; r < 2; r++ {
			c10WPhase(w, d, aq, one(t), whole, c10TagShareX)
			c10WPhase(w, dA, aq, one(g), whole, c10TagOwner)
		}
		// an unweighted value over the same Xs
		w.Hit("shared-Xs-unweighted-view")
		v := g.shareXs(g.name+", Xs slice shared, no Weights", nil)
		c10UPhase(w, du, aq, one(v), whole, c10TagUView)
		c10WPhase(w, dA, aq, one(g), whole, c10TagOwner)

		// same Weights, new Xs (ascending where the flag says so)
		w.Hit("xs-only-overwrite(Weights untouched)")
		nx := xs2
		if g.s.Sorted {
			nx = sx2
		}
		dB := c10BuildWData(nx, awA, c.PermSeed)
		g.loadX(nx)
		c10WPhase(w, dB, qs2, one(g), whole, c10TagXOnly)

		// a second value over the same Weights with the first values
		w.Hit("shared-Weights-second-sample")
		u := g.shareWs(g.name+", Weights slice shared", ax)
		for r := 0; r < 2; r++ {
			c10WPhase(w, dA, aq, one(u), whole, c10TagShareW)
			c10WPhase(w, dB, aq, one(g), whole, c10TagOwner)
		}
	}
	w.Distinct(mon.NewHasher().Fs(d.xs).Fs(d.ws).Fs(xs2).Fs(dA.ws).Fs(mon.Un(c.Qs)).Fs(qs2).I(c.Part).Sum())
}

func c10WPhase(w *mon.W, d *c10WData, qs []float64, pres []*c10Guarded, sub func(...float64) c10Case, tag string) {
	n := len(d.xs)
	wq := d.wq
	rearm := func(g *c10Guarded) {
		*g = *g.rearmed()
	}
	call := func(g *c10Guarded, q float64) (float64, bool) {
		var got float64
		w.Eval("Quantile(weighted)")
		if p, v := mon.Call(func() { got = g.s.Quantile(q) }); p {
			w.Violate("panic", fmt.Sprintf("weighted Quantile(%v) panicked on n=%d (%s): %v%s", q, n, g.name, v, tag), sub(q))
			return 0, false
		}
		if ok, what := g.intact(); !ok {
			w.Violate("sample-modified", fmt.Sprintf("weighted Quantile(%v) on n=%d (%s) modified its receiver: %s%s", q, n, g.name, what, tag), sub(q))
			rearm(g)
		}
		return got, true
	}
	inCands := func(got float64, lo, hi int) bool {
		for k := lo; k <= hi; k++ {
			if got == wq.Vals[k] {
				return true
			}
		}
		return false
	}
	for _, q := range qs {
		relq := d.c10WRel(q)
		lo, hi := wq.Cands(q, relq)
		if relq == 0 && q > 0 && q < 1 {
			if d.tieAt(q) {
				w.Hit("weighted-exact-tie-judged-strictly")
			} else {
				w.HitIf(d.besideCum(q, 0, 1e-12), "weighted-q-beside-cum(exact arithmetic, within 1e-12, judged strictly)")
			}
		}
		w.HitIf(q < 0, "weighted-q<0")
		w.HitIf(q > 1, "weighted-q>1")
		if lo != hi {
			w.Ambiguous()
			w.Note("weighted-ambiguous")
		} else {
			w.Note("weighted-unambiguous")
			if q > 0 && q < 1 {
				w.HitIf(d.besideCum(q, relq, 1e-6), "weighted-q-beside-cum(outside window, within 1e-6)")
				w.HitIf(d.besideCum(q, relq, 1e-12), "weighted-q-beside-cum(outside window, within 1e-12)")
			}
		}
		for _, g := range pres {
			got, ok := call(g, q)
			if !ok {
				continue
			}
			if !inCands(got, lo, hi) {
				want := fmt.Sprintf("%v", wq.Vals[lo])
				if lo != hi {
					want = fmt.Sprintf("one of %v", wq.Vals[lo:hi+1])
				}
				cw, _ := wq.Cum[lo].Float64()
				tw, _ := wq.W.Float64()
				w.Violate("weighted", fmt.Sprintf("weighted Quantile(%v)=%v on n=%d (%s); first value whose cumulative weight exceeds q*W=%.17g is %s (cumulative weight there %.17g, W=%.17g)%s", q, got, n, g.name, q*tw, want, cw, tw, tag), sub(q))
			}
			if w.WantSample() && lo == hi && q > 0 && q < 1 && n > 3 {
				w.Sample(map[string]any{"weighted": true, "n": n, "q": q, "Quantile": got, "ref": wq.Vals[lo]})
			}
		}
	}
	// IQR: against the rule (quartiles judged strictly when exact) and
	// against the library's own two quartiles (the statement's law, bit-exact)
	rel25, rel75 := d.c10WRel(0.25), d.c10WRel(0.75)
	w.HitIf(rel25 == 0 && d.tieAt(0.25) || rel75 == 0 && d.tieAt(0.75), "weighted-IQR-exact-tie-judged-strictly")
	lo75, hi75 := wq.Cands(0.75, rel75)
	lo25, hi25 := wq.Cands(0.25, rel25)
	for _, g := range pres {
		var iqr float64
		w.Eval("IQR(weighted)")
		if p, v := mon.Call(func() { iqr = g.s.IQR() }); p {
			w.Violate("panic", fmt.Sprintf("weighted IQR panicked on n=%d (%s): %v%s", n, g.name, v, tag), sub())
			continue
		}
		if ok, what := g.intact(); !ok {
			w.Violate("sample-modified", fmt.Sprintf("weighted IQR on n=%d (%s) modified its receiver: %s%s", n, g.name, what, tag), sub())
			rearm(g)
		}
		found := false
		for a := lo75; a <= hi75 && !found; a++ {
			for b := lo25; b <= hi25; b++ {
				if c10Same(iqr, wq.Vals[a]-wq.Vals[b]) {
					found = true
				}
			}
		}
		if !found {
			w.Violate("IQR-weighted", fmt.Sprintf("weighted IQR()=%v on n=%d (%s); quartiles by the cumulative-weight rule are %v and %v%s", iqr, n, g.name, wq.Vals[lo25:hi25+1], wq.Vals[lo75:hi75+1], tag), sub())
		}
		q75, ok1 := call(g, 0.75)
		q25, ok2 := call(g, 0.25)
		if ok1 && ok2 && !c10Same(iqr, q75-q25) {
			w.Violate("IQR-law", fmt.Sprintf("weighted IQR()=%.17g but Quantile(.75)-Quantile(.25)=%.17g-%.17g=%.17g (n=%d, %s)%s", iqr, q75, q25, q75-q25, n, g.name, tag), sub())
		}
	}
}

// --------------------------------------------------------------------- empty

func c10JudgeEmpty(w *mon.W, c c10Case) {
	var s stats.Sample
	if c.Empty&1 != 0 {
		s.Xs = []float64{}
	}
	if c.Empty&2 != 0 {
		s.Weights = []float64{}
	}
	s.Sorted = c.Empty&4 != 0
	w.Hit("empty")
	for _, q := range c10SortedQs(c.Qs) {
		var got float64
		w.Eval("Quantile(empty)")
		sc := c
		sc.Qs = mon.Fs([]float64{q})
		if p, v := mon.Call(func() { got = s.Quantile(q) }); p {
			w.Violate("panic", fmt.Sprintf("Quantile(%v) panicked on an empty sample (variant %d): %v", q, c.Empty, v), sc)
			continue
		}
		if !math.IsNaN(got) {
			w.Violate("empty", fmt.Sprintf("Quantile(%v)=%v on an empty sample (variant %d), want NaN", q, got, c.Empty), sc)
		}
	}
	var iqr float64
	w.Eval("IQR(empty)")
	sc := c
	sc.Qs = nil
	if p, v := mon.Call(func() { iqr = s.IQR() }); p {
		w.Violate("panic", fmt.Sprintf("IQR panicked on an empty sample (variant %d): %v", c.Empty, v), sc)
	} else if !math.IsNaN(iqr) {
		w.Violate("empty", fmt.Sprintf("IQR()=%v on an empty sample (variant %d), want NaN-NaN", iqr, c.Empty), sc)
	}
	w.Distinct(mon.NewHasher().I(c.Empty).Fs(mon.Un(c.Qs)).Sum())
}

// ---------------------------------------------------------------- generators

const c10Families = 13

// c10Values draws n finite values (with repeats in several families).
func c10Values(rng *mon.Rand, n, fam int) []float64 {
	xs := make([]float64, n)
	switch fam % c10Families {
	case 0: // small integers, many repeats
		k := 1 + rng.Intn(n/2+2)
		for i := range xs {
			xs[i] = float64(rng.Intn(k+1) - k/2)
		}
	case 1: // uniform reals
		for i := range xs {
			xs[i] = rng.Uniform(-1, 1)
		}
	case 2: // large offset, small spread: cancellation in the gaps
		off := rng.Sign() * rng.LogUniform(1e3, 1e12)
		s := rng.LogUniform(1e-3, 1e3)
		for i := range xs {
			xs[i] = off + s*rng.Norm()
		}
	case 3: // magnitudes over the whole exponent range, both signs
		for i := range xs {
			xs[i] = rng.Sign() * rng.LogUniform(1e-300, 1e300)
		}
	case 4: // all equal
		v := rng.Pick(0, 1, -2.5, 1e-310, 3e200, rng.Norm())
		for i := range xs {
			xs[i] = v
		}
	case 5: // two distinct values
		a, b := rng.Norm(), rng.Norm()*rng.LogUniform(1e-3, 1e3)
		for i := range xs {
			xs[i] = a
			if rng.Bool() {
				xs[i] = b
			}
		}
	case 6: // already ascending
		for i := range xs {
			xs[i] = rng.Uniform(-10, 10)
		}
		sort.Float64s(xs)
	case 7: // descending
		for i := range xs {
			xs[i] = rng.Uniform(-10, 10)
		}
		sort.Sort(sort.Reverse(sort.Float64Slice(xs)))
	case 8: // few distinct reals with heavy repeats
		for i := range xs {
			xs[i] = math.Round(rng.Norm()*3) / 4
		}
	case 9: // near the top of the range (gaps up to 2e307 do not overflow)
		for i := range xs {
			xs[i] = rng.Uniform(-1, 1) * 1e307
		}
	case 10: // subnormal
		for i := range xs {
			xs[i] = rng.Uniform(-1, 1) * 1e-310
		}
	case 11: // one outlier among clustered values
		for i := range xs {
			xs[i] = 1 + 1e-9*rng.Norm()
		}
		xs[rng.Intn(n)] = rng.Sign() * rng.LogUniform(1, 1e15)
	default: // same sign, 1e307 < |x| <= MaxFloat64: gaps stay finite, sums of two values do not
		sg := rng.Sign()
		lo := rng.Pick(1.0000001e307, 9e307, 1.7e308)
		for i := range xs {
			xs[i] = sg * rng.Uniform(lo, math.MaxFloat64)
			if rng.Intn(16) == 0 {
				xs[i] = sg * math.MaxFloat64
			}
		}
	}
	return xs
}

// c10N picks the sample size: small, the sizes whose break points are all
// exact (3n+1 a power of two), the upper end, or anything in 1..200.
func c10N(rng *mon.Rand, i int) int {
	switch i % 8 {
	case 0:
		return 1 + (i/8)%3 // 1,2,3 in turn
	case 1:
		return []int{5, 21, 85, 1}[(i/8)%4]
	case 2:
		return 200 - rng.Intn(3)
	case 3:
		return 2 + rng.Intn(12)
	default:
		return 1 + rng.Intn(200)
	}
}

// c10Round are the sizes at which an implementation plausibly switches
// algorithm, block or counter width.
var c10Round = []int{256, 500, 512, 1000, 1024, 2000, 2048, 4096, 5000, 8192, 10000, 16384, 20000, 32768, 50000, 65536, 100000, 131072, 200000, 262144}

// c10BigN picks a size beyond the small-sample workload, up to max: on even
// indices the round numbers <= max in turn (ascending, or descending from the
// largest), first at the number itself, then at +1, then at -1, then up to 32
// above; otherwise log-uniform in 201..max. turn alternates along every one
// of those sequences (a caller with two kinds of case gives each size both).
func c10BigN(rng *mon.Rand, i, max int, desc bool) (n, turn int) {
	if i%2 == 0 {
		k := 0
		for k < len(c10Round) && c10Round[k] <= max {
			k++
		}
		at, cyc := (i/2)%k, (i/2)/k
		turn = at + cyc
		if desc {
			at = k - 1 - at
		}
		n = c10Round[at]
		switch cyc {
		case 0:
		case 1:
			n++
		case 2:
			n--
		default:
			n += 1 + rng.Intn(32)
		}
		return n, turn
	}
	return int(rng.LogUniform(201, float64(max)+1)), i / 2
}

// c10HitLarge records the size classes beyond the statement's small-sample
// examples (the statement is about any non-empty sample).
func c10HitLarge(w *mon.W, n int, pre string) {
	w.HitIf(n > 200 && n <= 1000, pre+"large-n(201..1000)")
	w.HitIf(n > 1000 && n < 4096, pre+"large-n(1001..4095)")
	w.HitIf(n >= 4096 && n < 16384, pre+"large-n(4096..16383)")
	w.HitIf(n >= 16384, pre+"large-n(>=16384)")
	w.HitIf(n > 65536, pre+"large-n(>65536)")
	for _, r := range c10Round {
		if n >= r && n <= r+1 {
			w.Hit(pre + "large-n-at-round-number(+0|+1)")
		}
	}
}

func c10Near(rng *mon.Rand, q float64) float64 {
	switch rng.Intn(3) {
	case 0:
		return math.Nextafter(q, 2)
	case 1:
		return math.Nextafter(q, -1)
	}
	return q
}

// c10Rung is a float 2^k ulps (k = 0..35) above or below the break point b
// (0 < b < 1): the band between "a rounding error away" and "visibly away"
// in which a comparison with a tolerance on h or on its fractional part acts.
func c10Rung(rng *mon.Rand, b float64) float64 {
	step := uint64(1) << uint(rng.Intn(36))
	if rng.Bool() {
		return math.Float64frombits(math.Float64bits(b) + step)
	}
	return math.Float64frombits(math.Float64bits(b) - step)
}

// c10WRung is a point beside the cumulative-weight fraction f, outside the
// ambiguity window rel: at distance 2 rel 2^k, from 2 rel up to about 1e-6
// (rel = 4 eps: k = 0..29, 1.8e-15 .. 1e-6; rel = 800 eps: k = 0..21).
func c10WRung(rng *mon.Rand, f, rel float64) float64 {
	kmax := 0
	for math.Ldexp(2*rel, kmax+1) <= 1e-6 {
		kmax++
	}
	d := math.Ldexp(2*rel, rng.Intn(kmax+1))
	if rng.Intn(3) != 0 { // below: the cumulative weight there does exceed q W
		return f - d
	}
	return f + d
}

// c10Qs builds the 44 query points of one unweighted sample.
func c10Qs(rng *mon.Rand, n int) []float64 {
	qs := []float64{0, 1, 0.25, 0.75, 0.5, -0.5, 1.5,
		math.Nextafter(0, 1), math.Nextafter(0, -1), math.Nextafter(1, 0), math.Nextafter(1, 2),
		1e-300, rng.Uniform(-0.5, 0), rng.Uniform(-0.5, 0), 1 + rng.Uniform(0, 0.5) + 1e-9, 1 + rng.Uniform(0, 0.5) + 1e-9}
	// break points: the two clamp boundaries and random interior ones
	b1, _ := ref.BreakQ(n, 1)
	bn, _ := ref.BreakQ(n, n)
	qs = append(qs, c10Near(rng, b1), c10Near(rng, bn), b1, bn)
	for k := 0; k < 8; k++ {
		b, _ := ref.BreakQ(n, 1+rng.Intn(n))
		qs = append(qs, c10Near(rng, b))
		if k < 4 {
			qs = append(qs, c10Rung(rng, b))
		}
	}
	qs = append(qs, c10Rung(rng, b1), c10Rung(rng, bn))
	// inside the clamp regions 0<q<q_1 and q_n<q<1
	qs = append(qs, b1*rng.Float64(), b1*rng.Float64(), bn+(1-bn)*rng.Float64(), bn+(1-bn)*rng.Float64())
	for len(qs) < 44 {
		qs = append(qs, rng.Float64())
	}
	return qs
}

// c10Weights draws n positive weights.
func c10Weights(rng *mon.Rand, n, fam int) []float64 {
	ws := make([]float64, n)
	for i := range ws {
		switch fam % 6 {
		case 0:
			ws[i] = float64(1 + rng.Intn(5))
		case 1:
			ws[i] = 1
		case 2:
			ws[i] = rng.LogUniform(1e-3, 1e3)
		case 3:
			ws[i] = rng.Uniform(0.1, 1)
		case 4:
			ws[i] = float64(1+rng.Intn(16)) / 8 // dyadic: exact ties of q*W with cumulative weights
		default:
			ws[i] = 1
			if rng.Intn(n) == 0 {
				ws[i] = 1e6
			}
		}
	}
	return ws
}

// c10WExp picks the power of two a whole weight vector is multiplied by.
func c10WExp(rng *mon.Rand) int {
	return rng.PickI(0, 0, 0, 0, 40, -40, 200, -200)
}

// c10ShortQs builds the 12 query points of one phase of a history case.
func c10ShortQs(rng *mon.Rand, n int) []float64 {
	qs := []float64{rng.Float64(), 0.5, 0.25, 0.75, 0, 1, rng.Uniform(-0.5, 0), 1 + rng.Uniform(0, 0.5) + 1e-9}
	for k := 0; k < 2; k++ {
		b, _ := ref.BreakQ(n, 1+rng.Intn(n))
		qs = append(qs, c10Near(rng, b), c10Rung(rng, b))
	}
	for len(qs) < 12 {
		qs = append(qs, rng.Float64())
	}
	return qs
}

func c10Run(r *mon.Run) {
	r.Rule("random: samples of n=1..200 (sizes 1,2,3 / 5,21,85 / 198..200 forced on fixed index residues) from 13 value families (repeats, all-equal, two-valued, offsets 1e3..1e12, magnitudes 1e-300..1e300, subnormal, +-1e307, same-sign 1e307..MaxFloat64, pre-sorted, descending) x 44 q (0, 1, quartiles, +-1ulp around 0 and 1, q<0, q>1, nearest float to break points (3j-1)/(3n+1) and its neighbours incl. both clamp boundaries, 6 points 2^k ulp (k=0..35) beside break points, inside both clamp regions, uniform); every q on 7 presentations (given order, second permutation, sorted with Sorted=true, sorted with Sorted=false; library Copy(), library Copy()+Sort(), hand-built sample after its own Sort()) + IQR on each. breaks: every n=1..200 x every break point j=1..n x {nearest float, +-1ulp} and for a quarter of them one point 2^k ulp away. exhaustive: all sequences over a 3 (thorough 4) letter alphabet up to length 5 (thorough 7), i.e. all permutations of all such multisets. weighted: n=1..200, integer/unit/real/dyadic/dominant weights, values with and without ties, q at cumulative-weight fractions and +-1 ulp, 1e-9 beside them, 2 rel 2^k (from 2 rel to 1e-6; rel = 4 eps on weights with exact sums, else 4 n eps) beside them, 2^k ulp (k=0..35) beside them on weights with exact sums, and uniform; a third of the weight vectors times 2^+-40 or 2^+-200. reuse / reuse-weighted: 12 q on 7 presentations, then the same 7 backing arrays overwritten in place with another sample of the same length (other weights and scale) and 12 q again, then the two samples alternating twice through each buffer (3 q + IQR directly after each overwrite). partial / partial-serial (weighted, 3 of the presentations): Weights array alone overwritten, second Sample values sharing the Xs slice (other Weights; none), Xs array alone overwritten, second Sample value sharing the Weights slice; owner and sharer queried in turn. large / large-serial: the reuse history (12 q on 7 presentations, same 7 backing arrays refilled in place, 12 q, one alternation round) on n=201..70000 (thorough 300000; serial 10000 / 40000): even indices the round numbers 256,500,512,1000,1024,2000,2048,4096,5000,8192,10000,16384,20000,32768,50000,65536,100000,131072,200000,262144 up to the maximum in turn (serial: descending) at +0, then +1, then -1, then 1..32 above, odd indices log-uniform; 13 value families in turn. large-weighted / large-weighted-serial: the same on n=201..20000 (thorough 70000; serial 5000 / 20000) with 6 weight families, q also at and 2 rel 2^k beside cumulative-weight fractions, half of the cases as partial histories (Weights alone / Xs alone refilled, shared slices). empty: 8 variants x 11 q. Non-trivial = hits a class; distinct by hash of (xs,ws,qs).")
	r.Assume("sample values finite with |x|<=1e307, or all of one sign up to MaxFloat64 (gaps between order statistics do not overflow); weights positive and finite; NaN/Inf q, NaN data, negative or zero weights, len(Weights)!=len(Xs) and Sorted=true on unsorted data are outside the statement",
		"unweighted tolerance 16 eps ((h+1) G + M) + 4e-323: G largest gap of the segment and its neighbours, M largest magnitude of the order statistics involved; containment in [min,max] and in the bracketing order statistics (h +- 16 eps (h+1)) is exact",
		"weighted ambiguity window around every cumulative weight (both neighbouring values accepted): 4 n eps W (4x the first-order rounding bound of W, q W and n partial sums or subtractions in any order); 4 eps W when all weights lie on one binary grid with W <= 2^53 steps (no sum rounds); none when moreover q W, 1-q and (1-q) W are exactly representable")
	r.Gate("library-built(Copy)", "library-built(Copy+Sort)", "library-built(Sort in place)",
		"weights-only-overwrite(Xs untouched)", "xs-only-overwrite(Weights untouched)", "shared-Xs-second-sample", "shared-Weights-second-sample", "shared-Xs-unweighted-view",
		"q-near-break(2..2^35 ulp)", "weighted-q-beside-cum(outside window, within 1e-6)", "weighted-q-beside-cum(outside window, within 1e-12)", "weighted-q-beside-cum(exact arithmetic, within 1e-12, judged strictly)",
		"huge-same-sign(|x|>1e307)", "equal-neighbours(exact answer)", "buffer-reuse(in-place overwrite)", "buffer-alternation", "buffer-reuse-weighted(in-place overwrite)",
		"weights-scaled-down(2^-40|2^-200)", "weights-scaled-up(2^40|2^200)", "weighted-IQR-exact-tie-judged-strictly",
		"weighted-exact-tie-judged-strictly", "q-at-break(+-1ulp)", "h-exact-integer", "q<0", "q>1", "q=0|1", "n=1", "n=2", "n>=150", "clamp-low(h<1)", "clamp-high(h>=n)",
		"repeats", "all-equal", "unsorted-input", "empty",
		"large-n(201..1000)", "large-n(1001..4095)", "large-n(4096..16383)", "large-n(>=16384)", "large-n(>65536)", "large-n-at-round-number(+0|+1)",
		"weighted-large-n(201..1000)", "weighted-large-n(1001..4095)", "weighted-large-n(4096..16383)", "weighted-large-n(>=16384)", "weighted-large-n-at-round-number(+0|+1)",
		"large-buffer-reuse(n>1000)", "large-buffer-reuse(n>=4096)", "large-buffer-reuse-weighted(n>1000)", "large-buffer-reuse-weighted(n>=4096)", "large-partial-history(n>1000)", "large-partial-history(n>=4096)",
		"weighted-ties", "weighted-integer", "weighted-real", "weighted-q<0", "weighted-q>1", "weighted-unsorted-input", "weighted-ambiguous", "weighted-unambiguous")
	if err := ref.C10SelfTest(); err != nil {
		r.Inconclusive("reference self-test failed: " + err.Error())
		return
	}

	// random unweighted samples x 40 q
	r.Parallel("random", r.Pick(12000, 150000), func(w *mon.W, i int) {
		rng := w.Rng
		n := c10N(rng, i)
		xs := c10Values(rng, n, (i/8)%c10Families)
		if i%8 >= 4 {
			xs = c10Values(rng, n, rng.Intn(c10Families))
		}
		c10Judge(w, c10Case{Xs: mon.Fs(xs), Qs: mon.Fs(c10Qs(rng, n)), PermSeed: rng.Uint64()})
	})

	// every break point of every n
	reps := r.Pick(6, 24)
	r.Exhaustive("every break point j=1..n of every n=1..200 at the nearest float and both neighbours")
	r.Parallel("breaks", 200*reps, func(w *mon.W, i int) {
		rng := w.Rng
		n := i%200 + 1
		xs := c10Values(rng, n, []int{1, 0, 2, 8, 3, 12, 5, 11, 6, 7, 9, 10, 4}[(i/200)%13])
		qs := []float64{0, 1}
		for j := 1; j <= n; j++ {
			b, _ := ref.BreakQ(n, j)
			qs = append(qs, b, math.Nextafter(b, 2), math.Nextafter(b, -1))
			if n <= 4 || rng.Intn(4) == 0 {
				qs = append(qs, c10Rung(rng, b))
			}
		}
		c10Judge(w, c10Case{Xs: mon.Fs(xs), Qs: mon.Fs(qs), PermSeed: rng.Uint64()})
	})

	// all sequences over a small alphabet
	alpha, maxLen := r.Pick(3, 4), r.Pick(5, 7)
	type seq struct{ n, code int }
	var seqs []seq
	for n, cnt := 1, alpha; n <= maxLen; n, cnt = n+1, cnt*alpha {
		for code := 0; code < cnt; code++ {
			seqs = append(seqs, seq{n, code})
		}
	}
	r.Exhaustive(fmt.Sprintf("all sequences (hence all permutations of all multisets) over %d distinct values up to length %d", alpha, maxLen))
	r.Parallel("exhaustive-small", len(seqs), func(w *mon.W, i int) {
		rng := w.Rng
		s := seqs[i]
		vals := incValues(rng, alpha)
		xs := make([]float64, s.n)
		for k, code := 0, s.code; k < s.n; k, code = k+1, code/alpha {
			xs[k] = vals[code%alpha]
		}
		qs := []float64{0, 1, 0.25, 0.5, 0.75, -0.5, 1.5}
		for j := 1; j <= s.n; j++ {
			b, _ := ref.BreakQ(s.n, j)
			qs = append(qs, b, math.Nextafter(b, 2), math.Nextafter(b, -1), c10Rung(rng, b))
		}
		b1, _ := ref.BreakQ(s.n, 1)
		bn, _ := ref.BreakQ(s.n, s.n)
		qs = append(qs, b1/2, (1+bn)/2)
		for k := 0; k < 5; k++ {
			qs = append(qs, rng.Float64())
		}
		c10Judge(w, c10Case{Xs: mon.Fs(xs), Qs: mon.Fs(qs), PermSeed: rng.Uint64()})
	})

	// weighted
	r.Parallel("weighted", r.Pick(4000, 40000), func(w *mon.W, i int) {
		rng := w.Rng
		n := c10N(rng, i/2)
		var xs []float64
		if i%2 == 0 {
			xs = c10Values(rng, n, []int{0, 8, 5, 4}[(i/2)%4]) // ties among the values
		} else {
			xs = c10Values(rng, n, []int{1, 2, 3, 6, 7, 11, 12}[(i/2)%7])
		}
		ws := c10Weights(rng, n, i/4)
		wexp := c10WExp(rng)
		wq := ref.NewWQ(xs, ws) // cumulative-weight fractions do not depend on the scale
		qs := []float64{0, 1, 0.25, 0.5, 0.75, -0.5, 1.5, rng.Uniform(-0.5, 0), 1 + rng.Uniform(0, 0.5) + 1e-9,
			math.Nextafter(0, 1), math.Nextafter(1, 0), 1e-300}
		rel := c10WBaseRel(wq, n)
		for k := 0; k < 6; k++ {
			f := wq.CumQ(rng.Intn(len(wq.Vals)))
			qs = append(qs, c10Near(rng, f), f+rng.Sign()*1e-9, c10WRung(rng, f, rel))
			if wq.Grid && f > 0 && f < 1 { // sums exact: a ladder in ulps, judged strictly where q W is exact too
				qs = append(qs, c10Rung(rng, f))
			} else {
				qs = append(qs, c10WRung(rng, f, rel))
			}
		}
		for len(qs) < 40 {
			qs = append(qs, rng.Float64())
		}
		c10Judge(w, c10Case{Xs: mon.Fs(xs), Ws: mon.Fs(ws), WExp: wexp, Weighted: true, Qs: mon.Fs(qs), PermSeed: rng.Uint64()})
	})

	// history: one set of buffers, several samples
	r.Parallel("reuse", r.Pick(1500, 20000), func(w *mon.W, i int) {
		rng := w.Rng
		n := c10N(rng, i)
		if n == 1 && i%2 == 0 {
			n = 2 + rng.Intn(30)
		}
		f1 := rng.Intn(c10Families)
		f2 := f1
		if rng.Bool() {
			f2 = rng.Intn(c10Families)
		}
		xs, xs2 := c10Values(rng, n, f1), c10Values(rng, n, f2)
		c10Judge(w, c10Case{Xs: mon.Fs(xs), Qs: mon.Fs(c10ShortQs(rng, n)), Xs2: mon.Fs(xs2), Qs2: mon.Fs(c10ShortQs(rng, n)), Alt: 2, PermSeed: rng.Uint64()})
	})
	r.Parallel("reuse-weighted", r.Pick(500, 6000), func(w *mon.W, i int) {
		rng := w.Rng
		n := c10N(rng, i)
		fams := []int{0, 8, 5, 1, 2, 3, 7, 11, 12}
		xs, xs2 := c10Values(rng, n, fams[rng.Intn(len(fams))]), c10Values(rng, n, fams[rng.Intn(len(fams))])
		ws, ws2 := c10Weights(rng, n, rng.Intn(6)), c10Weights(rng, n, rng.Intn(6))
		c10Judge(w, c10Case{Xs: mon.Fs(xs), Ws: mon.Fs(ws), WExp: c10WExp(rng), Weighted: true, Qs: mon.Fs(c10ShortQs(rng, n)),
			Xs2: mon.Fs(xs2), Ws2: mon.Fs(ws2), WExp2: c10WExp(rng), Qs2: mon.Fs(c10ShortQs(rng, n)), Alt: 2, PermSeed: rng.Uint64()})
	})

	// partial histories: one of the two arrays overwritten, slices shared
	// between Sample values. Once on the worker pool and once on a single
	// goroutine (nothing else calls the library in between two steps).
	partial := func(w *mon.W, i int) {
		rng := w.Rng
		n := c10N(rng, i)
		if n == 1 {
			n = 2 + rng.Intn(30)
		}
		fams := []int{0, 8, 5, 1, 2, 3, 7, 11, 12}
		xs, xs2 := c10Values(rng, n, fams[rng.Intn(len(fams))]), c10Values(rng, n, fams[rng.Intn(len(fams))])
		ws, ws2 := c10Weights(rng, n, rng.Intn(6)), c10Weights(rng, n, rng.Intn(6))
		qs2 := c10ShortQs(rng, n)[:8]
		wq := ref.NewWQ(xs, ws2)
		rel := c10WBaseRel(wq, n)
		for k := 0; k < 2; k++ {
			f := wq.CumQ(rng.Intn(len(wq.Vals)))
			qs2 = append(qs2, c10Near(rng, f), c10WRung(rng, f, rel))
		}
		c10Judge(w, c10Case{Xs: mon.Fs(xs), Ws: mon.Fs(ws), WExp: c10WExp(rng), Weighted: true, Qs: mon.Fs(c10ShortQs(rng, n)[:6]),
			Xs2: mon.Fs(xs2), Ws2: mon.Fs(ws2), WExp2: c10WExp(rng), Qs2: mon.Fs(qs2), Part: 1, PermSeed: rng.Uint64()})
	}
	r.Parallel("partial", r.Pick(450, 6000), partial)
	r.Serial("partial-serial", r.Pick(150, 1500), partial)

	// large samples: every judge above, on sizes beyond 200. All of them are
	// histories (the plain phase comes first): 12 q on the 7 presentations,
	// the same buffers refilled in place, 12 q again, one alternation round.
	largeU := func(max int, desc bool) func(w *mon.W, i int) {
		return func(w *mon.W, i int) {
			rng := w.Rng
			n, _ := c10BigN(rng, i, max, desc)
			f1 := []int{1, 0, 2, 8, 3, 12, 5, 11, 7, 9, 10, 6, 4}[(i/2)%13]
			f2 := f1
			if rng.Bool() {
				f2 = rng.Intn(c10Families)
			}
			xs, xs2 := c10Values(rng, n, f1), c10Values(rng, n, f2)
			c10Judge(w, c10Case{Xs: mon.Fs(xs), Qs: mon.Fs(c10ShortQs(rng, n)), Xs2: mon.Fs(xs2), Qs2: mon.Fs(c10ShortQs(rng, n)), Alt: 1, PermSeed: rng.Uint64()})
		}
	}
	largeW := func(max int, desc bool) func(w *mon.W, i int) {
		return func(w *mon.W, i int) {
			rng := w.Rng
			n, turn := c10BigN(rng, i, max, desc)
			fams := []int{1, 0, 8, 2, 5, 3, 7, 11, 12}
			xs, xs2 := c10Values(rng, n, fams[(i/2)%len(fams)]), c10Values(rng, n, fams[rng.Intn(len(fams))])
			ws, ws2 := c10Weights(rng, n, i/3), c10Weights(rng, n, rng.Intn(6))
			qs, qs2 := c10ShortQs(rng, n), c10ShortQs(rng, n)[:8]
			// the cumulative-weight fractions of both weightings a phase can see
			for t, wv := range [][]float64{ws, ws2} {
				wq := ref.NewWQ(xs, wv)
				rel := c10WBaseRel(wq, n)
				for k := 0; k < 2; k++ {
					f := wq.CumQ(rng.Intn(len(wq.Vals)))
					if t == 0 {
						qs = append(qs, c10Near(rng, f), c10WRung(rng, f, rel))
					} else {
						qs2 = append(qs2, c10Near(rng, f), c10WRung(rng, f, rel))
					}
				}
			}
			c := c10Case{Xs: mon.Fs(xs), Ws: mon.Fs(ws), WExp: c10WExp(rng), Weighted: true, Qs: mon.Fs(qs),
				Xs2: mon.Fs(xs2), Ws2: mon.Fs(ws2), WExp2: c10WExp(rng), Qs2: mon.Fs(qs2), Alt: 1, PermSeed: rng.Uint64()}
			if turn%2 == 1 { // every round size is a plain history in one cycle and a partial one in the next
				c.Part = 1
			}
			c10Judge(w, c)
		}
	}
	r.Parallel("large", r.Pick(64, 600), largeU(r.Pick(70000, 300000), false))
	r.Parallel("large-weighted", r.Pick(48, 400), largeW(r.Pick(20000, 70000), false))
	// once more on a single goroutine: between the last query before a refill
	// and the first one after it nothing else calls the library
	r.Serial("large-serial", r.Pick(10, 60), largeU(r.Pick(10000, 40000), true))
	r.Serial("large-weighted-serial", r.Pick(8, 48), largeW(r.Pick(5000, 20000), true))

	// empty samples
	r.Exhaustive("empty sample: Xs nil/empty x Weights nil/empty x Sorted, 11 q")
	r.Parallel("empty", 8, func(w *mon.W, i int) {
		c10Judge(w, c10Case{Empty: i, Qs: mon.Fs([]float64{-0.5, 0, math.Nextafter(0, 1), 0.1, 0.25, 0.5, 0.75, math.Nextafter(1, 0), 1, 1.5, 1e-300})})
	})
}
