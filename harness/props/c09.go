package props

import (
	"encoding/json"
	"fmt"
	"math"
	"sort"
	"sync"
	"unsafe"

	"github.com/aclements/go-moremath/stats"
	"github.com/aclements/go-moremath/vec"
	gstat "gonum.org/v1/gonum/stat"

	"verifmon/mon"
	"verifmon/ref"
)

// C09 — descriptive statistics equal their definitions, weighted or not, in
// any order; Sort/Copy keep the multiset of (value, weight) pairs and share
// no storage; the vec helpers satisfy their defining identities.
//
// Tolerances (DESIGN section 4, policy b): tol = 16*nops*eps*kappa*scale with
// nops the number of operands (n, or 2n for a weighted statistic) and
// kappa*scale taken from the conditioning of the problem:
//   Sum      sum|w x|
//   Weight   sum w
//   Mean     sum w|x| / sum w
//   Variance sqrt(sum x^2 * SS)/(n-1)  (= ||x||/sqrt(SS) * variance, Chan-Golub-LeVeque)
//            plus the second-order floor (16 n eps)^2 sum x^2/(n-1), which a
//            correct two-pass algorithm needs on constant data
//   StdDev   the image of the variance interval under sqrt, plus 4 ulp
//   GeoMean  (1 + sum w|ln x| / sum w) * G
// Bounds, Sort, Copy, Map, Concat are exact.
//
// Overflow: the statement covers any finite data, so a finite Mean, GeoMean
// or Bounds must come out finite whatever the magnitudes (values up to 1e307
// of one sign are drawn). Sum is judged only while sum|w x| <= 2^1000: beyond
// that the exact result overflows or nearly overflows float64 (+-Inf is then
// the correct rounding). Variance/StdDev: the exact variance depends on the
// deviations only, and every algorithm that meets the tolerance at offset /
// spread 1e9 works on deviations (Welford, two-pass, Chan, scaled). So beyond
// sum x^2 = 2^960 the value is still judged while n (max-min)^2 <= 2^960 and
// the tolerance (with ||x|| taken from the reference, see c09Tolerances) is
// finite; its second-order term (16 n eps ||x||)^2/(n-1) - a rounded mean that
// is a few ulps off on constant data - overflows for ||x|| beyond ~1e165, and
// from there on (in effect: constant data) the result only has to be a
// non-negative number (+Inf included; NaN and negative values are refuted).
// Nothing is asked where n (max-min)^2 > 2^960: the exact variance can be
// finite there, but a sum of squared deviations may overflow, and a
// compensated (Kahan) or corrected two-pass summation then ends in Inf - Inf.
//
// Bottom of the range: data with a non-zero |x| < 1e-280 (down to 5e-324,
// subnormals, mixed with zeros) gets an absolute floor of 8*nops quanta
// (quantum = 5e-324) on Sum, Mean and 8 quanta on GeoMean: every operation
// whose result is subnormal may be off by half a quantum; Variance gets the
// floor for |x| < 1e-140 already (its products underflow). Where the
// exact variance is below the smallest normal number StdDev is only required
// to be a non-negative number (sqrt of a flushed value). GeoMean of data with
// a subnormal value is likewise only required to be a non-negative number:
// math.Log of the toolchain (go1.23 amd64) is itself wrong on subnormals.
//
// Top of the range: +-MaxFloat64 occurs exactly. With max|x| * max(1, max w)
// > 1.25e308 Mean is judged only for data of one sign that is unweighted or
// has weights in {0,1} (w*x or x-m overflows otherwise); +Inf is accepted
// where the exact value plus the tolerance exceeds MaxFloat64. A GeoMean
// beyond 1e307 is only required to be a non-negative number (math.Exp of the
// toolchain overflows early, above 709.4). Bounds and Weight are always
// judged.
//
// Wide weights (largest/smallest non-zero weight > 64): Sum, Weight and
// Bounds are judged in every order. Mean and GeoMean are judged against the
// same conditioning-derived tolerance, but only in the orders where an
// a-priori bound of the incremental recurrence m += (x-m) w/wsum fits into
// half of it (c09OrderBound): with a light point of large |x| before a much
// heavier one the recurrence cancels (DESIGN section 6, outside the
// statement's reach). Heaviest-first orders always qualify.

const c09Eps = 0x1p-52

// c09Quantum is the spacing of the subnormal numbers.
const c09Quantum = 0x1p-1074

const (
	c09SumMax = 0x1p1000 // Sum is judged while sum|w x| <= c09SumMax
	c09SqMax  = 0x1p960  // Variance/StdDev are judged while sum x^2 <= c09SqMax
)

// c09SumJudged / c09VarJudged: reference-side decision whether the exact
// result is finite and far from overflow (false for NaN and Inf).
func c09SumJudged(d *ref.Desc) bool { return d.SumAbs <= c09SumMax }
func c09VarJudged(d *ref.Desc) bool { return d.SumSq <= c09SqMax }

// c09VarMode: what is asked of Variance/StdDev of unweighted data of n >= 2
// values (reference side and inputs only, see the head of the file).
const (
	c09VarFree  = iota // the squared deviations overflow or nearly: nothing is asked
	c09VarSane         // a non-negative number (NaN and negative values refuted)
	c09VarDev          // by value: the squares overflow (or nearly), the squared deviations do not
	c09VarValue        // by value: sum x^2 <= 2^960
)

func c09VarMode(d *ref.Desc, t c09Tol) int {
	switch {
	case c09VarJudged(d):
		return c09VarValue
	case math.IsNaN(d.Var) || math.IsInf(d.Var, 0):
		return c09VarFree
	}
	spread := d.Max - d.Min
	if !(float64(d.N)*spread*spread <= c09SqMax) {
		return c09VarFree
	}
	if !math.IsInf(t.vr, 0) && !math.IsNaN(t.vr) {
		return c09VarDev
	}
	return c09VarSane
}

type c09Op struct {
	Op  string `json:"op"` // sort | copy | query | mutx | mutw | flag
	Obj int    `json:"obj"`
	J   int    `json:"j,omitempty"`
	V   mon.F  `json:"v,omitempty"`
}

type c09Case struct {
	Kind string `json:"kind"` // sample | history | vsum | linspace | logspace | map | concat

	// sample, history, vsum, map
	Xs   []mon.F `json:"xs,omitempty"`
	Ws   []mon.F `json:"ws,omitempty"`
	HasW bool    `json:"has_w,omitempty"`
	// sample: the random permutations are derived from Seed
	Seed  uint64 `json:"seed,omitempty"`
	NPerm int    `json:"nperm,omitempty"`
	// history
	Sorted bool    `json:"sorted,omitempty"`
	Ops    []c09Op `json:"ops,omitempty"`
	// linspace / logspace
	Lo   mon.F `json:"lo,omitempty"`
	Hi   mon.F `json:"hi,omitempty"`
	Base mon.F `json:"base,omitempty"`
	Num  int   `json:"num,omitempty"`
	// map: function index; Seq selects the sequence of inputs (derived from
	// Xs) every closure / Map is applied to, see c09MapInputs
	Fn  int `json:"fn,omitempty"`
	Seq int `json:"seq,omitempty"`
	// concat: part k has values Parts[k], Caps[k] spare elements of
	// capacity, is nil when Nil[k], and is the very same slice as part
	// Alias[k] when Alias[k] >= 0
	Parts [][]mon.F `json:"parts,omitempty"`
	Caps  []int     `json:"caps,omitempty"`
	Nil   []bool    `json:"nil,omitempty"`
	Alias []int     `json:"alias,omitempty"`
}

func init() {
	mon.Register(&mon.Prop{ID: "C09", Run: c09Run, Replay: func(w *mon.W, v *mon.ViolationRec) {
		var c c09Case
		if json.Unmarshal(v.Case, &c) == nil {
			c09Judge(w, c)
		}
	}})
}

func c09Judge(w *mon.W, c c09Case) {
	switch c.Kind {
	case "sample":
		c09JudgeSample(w, c)
	case "history":
		c09JudgeHistory(w, c)
	case "vsum":
		c09JudgeVSum(w, c)
	case "linspace":
		c09JudgeLinspace(w, c)
	case "logspace":
		c09JudgeLogspace(w, c)
	case "map":
		c09JudgeMap(w, c)
	case "concat":
		c09JudgeConcat(w, c)
	}
}

// ---------------------------------------------------------------------------
// helpers

func c09Same(a, b float64) bool { return a == b || (math.IsNaN(a) && math.IsNaN(b)) }

func c09BitsEqual(a, b []float64) bool {
	if len(a) != len(b) {
		return false
	}
	for i := range a {
		if math.Float64bits(a[i]) != math.Float64bits(b[i]) {
			return false
		}
	}
	return true
}

func c09Clone(xs []float64) []float64 {
	if xs == nil {
		return nil
	}
	out := make([]float64, len(xs))
	copy(out, xs)
	return out
}

// c09Overlap says whether the backing arrays (over their whole capacity)
// of a and b share memory.
func c09Overlap(a, b []float64) bool {
	a, b = a[:cap(a)], b[:cap(b)]
	if len(a) == 0 || len(b) == 0 {
		return false
	}
	pa, pb := uintptr(unsafe.Pointer(&a[0])), uintptr(unsafe.Pointer(&b[0]))
	return pa < pb+8*uintptr(len(b)) && pb < pa+8*uintptr(len(a))
}

func c09Ascending(xs []float64) bool {
	for i := 1; i < len(xs); i++ {
		if xs[i] < xs[i-1] {
			return false
		}
	}
	return true
}

// c09Pairs returns the (value, weight) pairs in a canonical order, so that
// two multisets are equal iff the results are bit-equal.
func c09Pairs(xs, ws []float64) [][2]float64 {
	p := make([][2]float64, len(xs))
	for i, x := range xs {
		if x == 0 {
			x = 0 // -0 and +0 are the same value
		}
		p[i][0] = x
		p[i][1] = 1
		if ws != nil {
			p[i][1] = ws[i]
		}
	}
	sort.Slice(p, func(i, j int) bool {
		if p[i][0] != p[j][0] {
			return p[i][0] < p[j][0]
		}
		return p[i][1] < p[j][1]
	})
	return p
}

func c09PairsEqual(a, b [][2]float64) bool {
	if len(a) != len(b) {
		return false
	}
	for i := range a {
		if a[i] != b[i] {
			return false
		}
	}
	return true
}

// c09Order applies a permutation to the pairs.
func c09Order(xs, ws []float64, p []int) (oxs, ows []float64) {
	oxs = make([]float64, len(xs))
	if ws != nil {
		ows = make([]float64, len(xs))
	}
	for i, k := range p {
		oxs[i] = xs[k]
		if ws != nil {
			ows[i] = ws[k]
		}
	}
	return
}

// c09AscPerm is the permutation that sorts xs ascending (stable).
func c09AscPerm(xs []float64) []int {
	p := make([]int, len(xs))
	for i := range p {
		p[i] = i
	}
	sort.SliceStable(p, func(i, j int) bool { return xs[p[i]] < xs[p[j]] })
	return p
}

type c09Tol struct{ sum, weight, mean, vr, sd, geo float64 }

// c09Tolerances derives the tolerances from the reference-side quantities.
//
// q is 0, or c09Quantum for data holding a non-zero |x| < 1e-280 (c09Inspect):
// then every tolerance gets an absolute floor of a few quanta per operand.
// qv is the same for the variance, whose products underflow already for
// |x| < 1e-140.
func c09Tolerances(d *ref.Desc, nops int, q, qv float64) c09Tol {
	if nops < 1 {
		nops = 1
	}
	k := 16 * float64(nops) * c09Eps
	fl := 8 * float64(nops) * q
	t := c09Tol{sum: k*d.SumAbs + fl, weight: k * d.W, mean: k * d.MeanAbs}
	if q > 0 && d.W > 0 {
		// the half quantum lost in a product w*x is divided by the total weight
		t.mean += fl * math.Max(1, 1/d.W)
	}
	if !d.Weighted && d.N >= 2 {
		n1 := float64(d.N - 1)
		if c09VarJudged(d) {
			t.vr = k*math.Sqrt(d.SumSq)*math.Sqrt(d.SS)/n1 + k*k*d.SumSq/n1 + 8*float64(nops)*qv
		} else {
			// sum x^2 overflows float64 or nearly: the same two terms from
			// ||x|| (rounded once by the reference); +Inf where they overflow
			a := k * d.Norm
			t.vr = a*math.Sqrt(d.SS)/n1 + a*a/n1
			if math.IsNaN(t.vr) { // Inf * 0
				t.vr = math.Inf(1)
			}
		}
		lo := math.Sqrt(math.Max(0, d.Var-t.vr))
		hi := math.Sqrt(d.Var + t.vr)
		t.sd = math.Max(d.SD-lo, hi-d.SD) + 4*c09Eps*d.SD
	}
	if !d.NonPos && d.W > 0 {
		t.geo = k*(1+d.MeanAbsLog)*d.Geo + 8*q
	}
	return t
}

// c09In: facts about the inputs of one query (inputs only).
type c09In struct {
	amax, amin  float64 // largest and smallest non-zero |x| (0 and +Inf if there is none)
	oneSign     bool    // no two non-zero values of opposite sign
	unit        bool    // unweighted, or every weight is 0 or 1
	wmin, wmax  float64 // smallest and largest non-zero weight (+Inf and 0 if there is none)
	subnormal   bool    // some non-zero |x| is below the smallest normal number
	q           float64 // c09Quantum if some non-zero |x| < 1e-280, else 0
	qv          float64 // c09Quantum if some non-zero |x| < 1e-140, else 0
	wide        bool    // weighted and wmax > 64*wmin
	lightBehind bool    // some non-zero weight is at most 2^-53 of the weight before it in slice order
}

func c09Inspect(xs, ws []float64) c09In {
	in := c09In{amin: math.Inf(1), wmin: math.Inf(1), oneSign: true, unit: true}
	pos, neg := false, false
	for _, x := range xs {
		if a := math.Abs(x); a > 0 {
			in.amax, in.amin = math.Max(in.amax, a), math.Min(in.amin, a)
			pos, neg = pos || x > 0, neg || x < 0
		}
	}
	in.oneSign = !(pos && neg)
	in.subnormal = in.amin < 0x1p-1022
	if in.amin < 1e-280 {
		in.q = c09Quantum
	}
	if in.amin < 1e-140 {
		in.qv = c09Quantum
	}
	before := 0.0
	for _, w := range ws {
		if w != 0 {
			in.wmax, in.wmin = math.Max(in.wmax, w), math.Min(in.wmin, w)
			if w != 1 {
				in.unit = false
			}
			if before >= w*0x1p53 {
				in.lightBehind = true
			}
			before += w
		}
	}
	in.wide = ws != nil && in.wmax > 64*in.wmin
	return in
}

// c09OrderBound is an a-priori bound, in units of eps, of the rounding error
// of the incremental weighted mean m += (a_i - m) w_i/wsum_i taken over the
// data in slice order, a_i = f(x_i): step i commits at most
// eps (|m_i| + (c+2) |delta_i|) (c-1 roundings sit in wsum_i, three in
// delta_i, one in the addition), and later steps only shrink it (the factor
// 1 - w/wsum lies in [0,1]). |m_i| <= A_i/wsum_i with A_i = sum w|a| and
// |delta_i| <= (|a_i| + |m_(i-1)|) w_i/wsum_i. Inputs only; all terms are
// positive, so float64 evaluates it to a few ulps.
func c09OrderBound(xs, ws []float64, f func(float64) float64) float64 {
	A, S, B, prev := 0.0, 0.0, 0.0, 0.0
	c := 0
	for i, x := range xs {
		w := ws[i]
		if w == 0 {
			continue
		}
		c++
		a := f(x)
		S += w
		A += w * a
		cur := A / S
		B += cur + float64(c+3)*(a+prev)*(w/S)
		prev = cur
	}
	return B
}

func c09AbsLog(x float64) float64 { return math.Abs(math.Log(x)) }

// c09Res is what one round of queries returned.
type c09Res struct {
	ok                                       bool
	mean, geo, sum, weight, min, max, vr, sd float64
	hasGeo, hasVar                           bool
	meanOK, geoOK                            bool // Mean / GeoMean were judged by value
}

type c09Ctx struct {
	w    *mon.W
	c    c09Case
	stop bool // a violation was recorded: the remaining steps would only cascade
}

func (j *c09Ctx) bad(kind, msg string) {
	j.w.Violate(kind, msg, j.c)
	j.stop = true
}

// value judges one numeric result against the exact value.
func (j *c09Ctx) value(op, label string, got, want, tol float64) {
	if math.IsNaN(want) {
		if !math.IsNaN(got) {
			j.bad(op, fmt.Sprintf("%s [%s] = %v, want NaN (no data / non-positive data)", op, label, got))
		}
		return
	}
	if math.IsInf(got, 0) && (got > 0) == (want > 0) && math.Abs(want)/2+tol/2 >= math.MaxFloat64/2 {
		// the exact value plus the tolerance lies beyond the largest finite
		// number: the infinity is its correct rounding
		j.w.Note("overflow-accepted:exact-value-plus-tolerance-exceeds-MaxFloat64")
		return
	}
	if !j.w.Err(op, math.Abs(got-want), tol) {
		j.bad(op, fmt.Sprintf("%s [%s] = %.17g, exact value %.17g, |err| %.3g > tol %.3g", op, label, got, want, math.Abs(got-want), tol))
	}
}

// sane judges a result whose value is not judged (see the head of the file):
// it must still be a non-negative number.
func (j *c09Ctx) sane(op, label string, got float64) {
	j.w.Eval(op + ":sane")
	if math.IsNaN(got) || got < 0 {
		j.bad(op, fmt.Sprintf("%s [%s] = %v where the exact value is a finite non-negative number", op, label, got))
	}
}

// small accepts 0 or NaN (variance of fewer than two values: the statement
// fixes no value).
func (j *c09Ctx) small(op, label string, got float64) {
	if !(got == 0 || math.IsNaN(got)) {
		j.bad(op, fmt.Sprintf("%s [%s] of fewer than two values = %v, want 0 or NaN", op, label, got))
	}
}

func (j *c09Ctx) call(op, label string, fn func()) bool {
	j.w.Eval(op)
	if p, v := mon.Call(fn); p {
		j.bad("panic", fmt.Sprintf("%s [%s] panicked: %v", op, label, v))
		return false
	}
	return true
}

// query runs every applicable query of the Sample API (and, for unweighted
// data, of the slice API) on s and judges each result against d.
// The weighted Variance/StdDev are documented as not implemented and the
// weighted GeoMean requires positive values: those calls are outside the
// statement and are not made.
func (j *c09Ctx) query(s stats.Sample, d *ref.Desc, label string) (r c09Res) {
	weighted := s.Weights != nil
	nops := d.N
	if weighted {
		nops = 2 * d.N
	}
	in := c09Inspect(s.Xs, s.Weights)
	t := c09Tolerances(d, nops, in.q, in.qv)

	// which of Mean / GeoMean are judged by value (inputs and reference only)
	// (math.Exp of the toolchain returns +Inf above 709.4: a geometric mean
	// beyond 1e307 is not judged by value either)
	meanOK, geoOK := true, !in.subnormal && !(d.Geo > 1e307)
	if in.amax*math.Max(1, in.wmax) > 1.25e308 && !(in.oneSign && in.unit) {
		meanOK = false // x-m or w*x can overflow
	}
	if in.wide && d.W > 0 {
		if meanOK {
			meanOK = c09Eps*c09OrderBound(s.Xs, s.Weights, math.Abs) <= t.mean/2
		}
		if geoOK && !d.NonPos {
			k := 16 * float64(nops) * c09Eps
			geoOK = c09Eps*c09OrderBound(s.Xs, s.Weights, c09AbsLog) <= k*(1+d.MeanAbsLog)/2
		}
		if meanOK {
			j.w.Hit("wide-weights-mean-judged")
			j.w.HitIf(in.lightBehind, "wide-weights-mean-judged:a-weight-below-half-ulp-of-the-weight-before-it")
		} else {
			j.w.Note("wide-weights-mean-not-judged-in-this-order")
		}
	}
	if !meanOK && !in.wide {
		j.w.Note("mean-not-judged:|x|>1e307-mixed-signs-or-weights")
	}
	if weighted && d.W > 0 && in.amax > 0 && in.amax <= 1e-290 && in.wmax >= 1e13 && meanOK {
		j.w.Hit("tiny-values-at-wide-weights-mean-judged")
		j.w.HitIf(in.wide, "tiny-values-at-wide-weights-mean-judged:weight-ratio>64")
	}
	r.meanOK, r.geoOK = meanOK, geoOK

	if !j.call("Sample.Sum", label, func() { r.sum = s.Sum() }) {
		return
	}
	sumOK, varMode := c09SumJudged(d), c09VarMode(d, t)
	if sumOK {
		j.value("Sample.Sum", label, r.sum, d.Sum, t.sum)
	} else {
		j.w.Note("sum-not-judged:exact-value-overflows-or-nearly")
	}
	if !j.call("Sample.Weight", label, func() { r.weight = s.Weight() }) {
		return
	}
	j.value("Sample.Weight", label, r.weight, d.W, t.weight)
	if !j.call("Sample.Mean", label, func() { r.mean = s.Mean() }) {
		return
	}
	if meanOK {
		j.value("Sample.Mean", label, r.mean, d.Mean, t.mean)
	}
	if !j.call("Sample.Bounds", label, func() { r.min, r.max = s.Bounds() }) {
		return
	}
	if !c09Same(r.min, d.Min) || !c09Same(r.max, d.Max) {
		j.bad("Sample.Bounds", fmt.Sprintf("Sample.Bounds [%s] = (%v, %v), exact (%v, %v)", label, r.min, r.max, d.Min, d.Max))
	}
	if !weighted || !d.NonPos {
		r.hasGeo = true
		if !j.call("Sample.GeoMean", label, func() { r.geo = s.GeoMean() }) {
			return
		}
		if geoOK || math.IsNaN(d.Geo) {
			j.value("Sample.GeoMean", label, r.geo, d.Geo, t.geo)
		} else {
			j.sane("Sample.GeoMean", label, r.geo)
		}
	}
	// tiny data whose exact variance is below the smallest normal number:
	// StdDev is the square root of a flushed value
	sdOK := !(in.qv > 0 && d.Var < 0x1p-1022)
	if !weighted {
		r.hasVar = true
		j.w.HitIf(!sdOK && d.N >= 2 && d.Max > d.Min, "tiny-variance-underflows")
		if !j.call("Sample.Variance", label, func() { r.vr = s.Variance() }) {
			return
		}
		if !j.call("Sample.StdDev", label, func() { r.sd = s.StdDev() }) {
			return
		}
		if d.N < 2 {
			j.small("Sample.Variance", label, r.vr)
			j.small("Sample.StdDev", label, r.sd)
		} else if varMode >= c09VarDev {
			j.w.HitIf(varMode == c09VarDev, "variance-judged-on-deviations:squares-overflow-or-nearly")
			j.w.HitIf(varMode == c09VarDev && d.SS > 0, "variance-judged-on-deviations:not-constant")
			j.value("Sample.Variance", label, r.vr, d.Var, t.vr)
			if sdOK {
				j.value("Sample.StdDev", label, r.sd, d.SD, t.sd)
			} else {
				j.sane("Sample.StdDev", label, r.sd)
			}
		} else if varMode == c09VarSane {
			j.w.Hit("variance-sane-only:squares-overflow-exact-variance-finite")
			j.sane("Sample.Variance", label, r.vr)
			j.sane("Sample.StdDev", label, r.sd)
		} else {
			j.w.Note("variance-not-judged:squared-deviations-overflow-or-nearly")
		}

		// slice API
		xs := s.Xs
		var g float64
		if !j.call("stats.Mean", label, func() { g = stats.Mean(xs) }) {
			return
		}
		if meanOK {
			j.value("stats.Mean", label, g, d.Mean, t.mean)
		}
		if !j.call("stats.GeoMean", label, func() { g = stats.GeoMean(xs) }) {
			return
		}
		if geoOK || math.IsNaN(d.Geo) {
			j.value("stats.GeoMean", label, g, d.Geo, t.geo)
		} else {
			j.sane("stats.GeoMean", label, g)
		}
		var v, sd float64
		if !j.call("stats.Variance", label, func() { v = stats.Variance(xs) }) {
			return
		}
		if !j.call("stats.StdDev", label, func() { sd = stats.StdDev(xs) }) {
			return
		}
		if d.N < 2 {
			j.small("stats.Variance", label, v)
			j.small("stats.StdDev", label, sd)
		} else if varMode >= c09VarDev {
			j.value("stats.Variance", label, v, d.Var, t.vr)
			if sdOK {
				j.value("stats.StdDev", label, sd, d.SD, t.sd)
			} else {
				j.sane("stats.StdDev", label, sd)
			}
		} else if varMode == c09VarSane {
			j.sane("stats.Variance", label, v)
			j.sane("stats.StdDev", label, sd)
		}
		var lo, hi float64
		if !j.call("stats.Bounds", label, func() { lo, hi = stats.Bounds(xs) }) {
			return
		}
		if !c09Same(lo, d.Min) || !c09Same(hi, d.Max) {
			j.bad("stats.Bounds", fmt.Sprintf("stats.Bounds [%s] = (%v, %v), exact (%v, %v)", label, lo, hi, d.Min, d.Max))
		}
		if !j.call("vec.Sum", label, func() { g = vec.Sum(xs) }) {
			return
		}
		if sumOK {
			j.value("vec.Sum", label, g, d.Sum, t.sum)
		}
	}
	r.ok = true
	return
}

// fresh builds a Sample on private copies of the data, queries it, and
// checks that the queries left the data alone (M-guard).
func (j *c09Ctx) fresh(xs, ws []float64, sorted bool, d *ref.Desc, label string) c09Res {
	cx, cw := c09Clone(xs), c09Clone(ws)
	if cx == nil {
		cx = []float64{}
	}
	r := j.query(stats.Sample{Xs: cx, Weights: cw, Sorted: sorted}, d, label)
	if !c09BitsEqual(cx, xs) || !c09BitsEqual(cw, ws) {
		j.bad("input-modified", fmt.Sprintf("a query [%s] modified its input", label))
	}
	return r
}

// ---------------------------------------------------------------------------
// samples: M-ref on every order, M-law permutations / Sorted flag / expansion

func c09JudgeSample(w *mon.W, c c09Case) {
	xs := mon.Un(c.Xs)
	var ws []float64
	if c.HasW {
		ws = mon.Un(c.Ws)
	}
	n := len(xs)
	d := ref.Describe(xs, ws)
	j := &c09Ctx{w: w, c: c}

	asc := c09AscPerm(xs)
	axs, aws := c09Order(xs, ws, asc)

	// classes: inputs and reference-side quantities only
	w.HitIf(n == 0, "n=0")
	w.HitIf(n == 1, "n=1")
	w.HitIf(n == 2, "n=2")
	w.HitIf(n >= 100, "n>=100")
	w.HitIf(!c.HasW && n >= 2 && d.SD > 0 && math.Abs(d.Mean)/d.SD >= 1e8, "offset/spread>=1e8")
	w.HitIf(!c.HasW && n >= 2 && d.SS == 0, "constant-data")
	ties := false
	for i := 1; i < n; i++ {
		if axs[i] == axs[i-1] {
			ties = true
		}
	}
	w.HitIf(ties, "ties")
	// magnitudes (inputs and exact sums only)
	amax, amin := 0.0, math.Inf(1)
	oneSign := true
	for _, x := range xs {
		if a := math.Abs(x); a > 0 {
			amax, amin = math.Max(amax, a), math.Min(amin, a)
		}
		if n > 0 && x != 0 && (x < 0) != (axs[0] < 0) {
			oneSign = false
		}
	}
	w.HitIf(amax >= 1e300 && oneSign, "huge-same-sign")
	w.HitIf(amax >= 1e300 && oneSign && !c.HasW && math.IsInf(d.Sum, 0), "huge-plain-sum-overflows")
	w.HitIf(amax >= 1e300 && oneSign && c.HasW && d.NPos > 0 && math.IsInf(d.Sum, 0), "huge-weighted-sum-overflows")
	w.HitIf(amax >= 1e300 && amin <= 1, "huge-and-small-mixed")
	w.HitIf(amax >= 1e300 && n >= 2 && d.W > 0 && (d.Max-d.Min) <= 1e-9*amax, "huge-offset-small-spread")
	w.HitIf(amax >= 1e290 && c09SumJudged(d), "huge-sum-judged")
	w.HitIf(amax >= 1e100 && !c.HasW && n >= 2 && c09VarJudged(d), "large-variance-judged")
	w.HitIf(n >= 1 && d.NonPos && !c.HasW, "geomean-nonpositive")
	w.HitIf(n >= 1 && d.NonPos && !c.HasW && axs[0] == 0, "geomean-zero-is-the-minimum")
	w.HitIf(n >= 1 && !d.NonPos, "geomean-positive")
	nonPosZeroW := false
	if c.HasW && !d.NonPos && d.W > 0 {
		for k := range axs {
			if axs[k] <= 0 {
				nonPosZeroW = true
			}
		}
	}
	w.HitIf(nonPosZeroW, "geomean-nonpositive-values-only-at-zero-weight")
	if c.HasW {
		if d.IntW {
			w.Hit("int-weights")
		} else if d.IntWhole {
			w.Hit("int-weights>64")
		} else {
			w.Hit("real-weights")
		}
		w.HitIf(n >= 1 && d.NPos == 0, "all-zero-weights")
		if d.NPos > 0 {
			w.HitIf(ws[0] == 0, "zero-weight-first")
			w.HitIf(aws[0] == 0, "zero-weight-prefix")
			w.HitIf(aws[n-1] == 0, "zero-weight-suffix")
		}
	} else {
		w.Note("unweighted")
	}
	// bottom and top of the float64 range, wide weights (inputs only)
	in := c09Inspect(xs, ws)
	hasMax, hasQ := false, false
	for _, x := range xs {
		hasMax = hasMax || math.Abs(x) == math.MaxFloat64
		hasQ = hasQ || math.Abs(x) == c09Quantum
	}
	w.HitIf(in.amax > 0 && in.amax <= 1e-250, "tiny-values")
	w.HitIf(in.amax > 0 && in.amax < 0x1p-1022, "tiny-all-subnormal")
	w.HitIf(in.amax > 0 && in.amax < 5e-309, "tiny-1/max|x|-overflows")
	w.HitIf(in.amax > 0 && in.amax <= 1e-250 && in.amin >= 0x1p-1022 && n >= 1 && !d.NonPos, "tiny-normal-geomean-judged")
	w.HitIf(in.q > 0 && in.amax >= 1e-30, "tiny-and-ordinary-mixed")
	zeros := false
	for _, x := range xs {
		zeros = zeros || x == 0
	}
	w.HitIf(in.amax > 0 && in.amax <= 1e-250 && zeros, "tiny-with-zeros")
	w.HitIf(hasQ, "smallest-nonzero-present")
	w.HitIf(hasMax, "maxfloat-present")
	w.HitIf(hasMax && in.oneSign && in.unit, "maxfloat-mean-judged")
	w.HitIf(c.HasW && d.NPos > 0 && d.Min == d.Max && math.Abs(d.Max) == math.MaxFloat64 && n > d.NPos, "all-weighted-values-are-maxfloat")
	w.HitIf(c.HasW && d.NPos > 0 && d.Min == d.Max && math.Abs(d.Max) == c09Quantum && n > d.NPos, "all-weighted-values-are-smallest-nonzero")
	if c.HasW && d.NPos > 0 {
		w.HitIf(in.wide, "wide-weights")
		w.HitIf(in.wmax >= 0x1p53*in.wmin, "weight-ratio>=2^53")
		w.HitIf(in.wide && in.wmax <= 1e6*in.wmin && d.IntWhole, "wide-integer-weights<=1e6")
		w.HitIf(!in.wide && (in.wmax >= 0x1p35 || in.wmax <= 0x1p-35), "weights-scaled-by-2^+-40")
		w.HitIf(in.lightBehind, "a-weight-below-half-ulp-of-the-weight-before-it")
		// every value is tiny and the weights are heavy: (x-m)/wsum underflows
		// although (x-m) w/wsum does not
		w.HitIf(in.amax > 0 && in.amax <= 1e-290 && in.wmax >= 1e13, "tiny-values-at-wide-weights")
		w.HitIf(in.amax > 0 && in.amax < 0x1p-1022 && in.wmax >= 0x1p53, "tiny-values-at-wide-weights:subnormals-at-weights>=2^53")
		// the smallest or the largest value is carried only by weights at
		// most 1e-12 of the largest weight
		minHeavy, maxHeavy := false, false
		for k, x := range xs {
			if ws[k] > 1e-12*in.wmax {
				minHeavy = minHeavy || x == d.Min
				maxHeavy = maxHeavy || x == d.Max
			}
		}
		w.HitIf(!minHeavy || !maxHeavy, "extreme-value-only-at-weights<=1e-12*max")
	}
	w.Distinct(mon.NewHasher().Fs(xs).Fs(ws).I(c.NPerm).U(c.Seed).Sum())

	// orders
	r0 := j.fresh(xs, ws, false, d, "as given")
	if j.stop {
		return
	}
	if in.wide {
		// heaviest first: the order in which the incremental mean is at its best
		hv := make([]int, n)
		for i := range hv {
			hv[i] = i
		}
		sort.SliceStable(hv, func(a, b int) bool { return ws[hv[a]] > ws[hv[b]] })
		hxs, hws := c09Order(xs, ws, hv)
		j.fresh(hxs, hws, false, d, "heaviest first")
		if j.stop {
			return
		}
	}
	ra := j.fresh(axs, aws, false, d, "ascending")
	if j.stop {
		return
	}
	rs := j.fresh(axs, aws, true, d, "ascending, Sorted=true")
	if j.stop {
		return
	}
	if ra.ok && rs.ok {
		w.Eval("law:Sorted-flag")
		if !c09Same(ra.mean, rs.mean) || !c09Same(ra.sum, rs.sum) || !c09Same(ra.weight, rs.weight) ||
			!c09Same(ra.min, rs.min) || !c09Same(ra.max, rs.max) ||
			(ra.hasGeo && !c09Same(ra.geo, rs.geo)) || (ra.hasVar && (!c09Same(ra.vr, rs.vr) || !c09Same(ra.sd, rs.sd))) {
			j.bad("sorted-flag", fmt.Sprintf("marking ascending data as Sorted changed a result: %+v vs %+v", ra, rs))
			return
		}
	}
	desc := make([]int, n)
	for i := range desc {
		desc[i] = asc[n-1-i]
	}
	dxs, dws := c09Order(xs, ws, desc)
	j.fresh(dxs, dws, false, d, "descending")
	if j.stop {
		return
	}
	rng := mon.NewRand(c.Seed, 0x633039)
	for k := 0; k < c.NPerm && n >= 2; k++ {
		pxs, pws := c09Order(xs, ws, rng.Perm(n))
		j.fresh(pxs, pws, false, d, fmt.Sprintf("permutation %d", k))
		if j.stop {
			return
		}
	}

	// integer weights: the unweighted sample with each value repeated
	if c.HasW && d.IntW && d.W <= 1500 {
		ex := ref.Expand(xs, ws)
		if rng.Bool() {
			rng.ShuffleF(ex)
		}
		de := ref.Describe(ex, nil)
		rw := r0
		re := j.fresh(ex, nil, false, de, "expanded")
		if j.stop || !rw.ok || !re.ok {
			return
		}
		w.Eval("law:weighted=repeated")
		tw, te := c09Tolerances(d, 2*n, in.q, in.qv), c09Tolerances(de, len(ex), in.q, in.qv)
		law := func(name string, a, b, tol float64) {
			if math.IsNaN(a) || math.IsNaN(b) {
				if !(math.IsNaN(a) && math.IsNaN(b)) {
					j.bad("weighted-vs-repeated", fmt.Sprintf("%s: weighted sample gives %v, the sample with each value repeated weight times gives %v", name, a, b))
				}
				return
			}
			if a == b { // also equal infinities
				w.Err("law:weighted=repeated:"+name, 0, tol)
				return
			}
			if !w.Err("law:weighted=repeated:"+name, math.Abs(a-b), tol) {
				j.bad("weighted-vs-repeated", fmt.Sprintf("%s: weighted sample gives %.17g, repeated sample %.17g, tol %.3g", name, a, b, tol))
			}
		}
		if rw.meanOK && re.meanOK {
			law("Mean", rw.mean, re.mean, tw.mean+te.mean)
		}
		if c09SumJudged(d) && c09SumJudged(de) {
			law("Sum", rw.sum, re.sum, tw.sum+te.sum)
		}
		law("Weight", rw.weight, re.weight, tw.weight+te.weight)
		if rw.hasGeo && re.hasGeo && ((rw.geoOK && re.geoOK) || math.IsNaN(d.Geo)) {
			law("GeoMean", rw.geo, re.geo, tw.geo+te.geo)
		}
		if !c09Same(rw.min, re.min) || !c09Same(rw.max, re.max) {
			j.bad("weighted-vs-repeated", fmt.Sprintf("Bounds: weighted (%v,%v), repeated (%v,%v)", rw.min, rw.max, re.min, re.max))
		}
	}
	if w.WantSample() && n >= 3 && n <= 6 {
		w.Sample(map[string]any{"kind": "sample", "xs": c.Xs, "ws": c.Ws, "weighted": c.HasW,
			"ref_mean": mon.F(d.Mean), "ref_var": mon.F(d.Var), "ref_geo": mon.F(d.Geo), "ref_sum": mon.F(d.Sum),
			"ref_bounds": []mon.F{mon.F(d.Min), mon.F(d.Max)}, "orders": 4 + c.NPerm})
	}
}

// ---------------------------------------------------------------------------
// histories: M-model, the model is the list of (x, w) pairs of every live
// object

type c09Obj struct {
	s      *stats.Sample
	xs, ws []float64 // model: what the object's arrays must hold, in order
	d      *ref.Desc // cached reference for the current multiset
}

func (j *c09Ctx) verifyAll(objs []*c09Obj, after string) {
	for k, o := range objs {
		if !c09BitsEqual(o.s.Xs, o.xs) || !c09BitsEqual(o.s.Weights, o.ws) || (o.ws == nil) != (o.s.Weights == nil) {
			j.bad("history-storage", fmt.Sprintf("after %s: object %d holds Xs=%v Weights=%v, the model says Xs=%v Weights=%v (shared storage or a query/Sort/Copy wrote where it must not)", after, k, o.s.Xs, o.s.Weights, o.xs, o.ws))
			return
		}
	}
}

// c09HistClass: a query on a Sorted weighted object whose first or last
// weight is zero (Bounds has to scan from that end).
func c09HistClass(w *mon.W, o *c09Obj) {
	w.HitIf(o.s.Sorted && o.ws != nil && o.d.NPos > 0 && (o.ws[0] == 0 || o.ws[len(o.ws)-1] == 0), "hist-sorted-bounds-zero-weight-end")
}

func c09JudgeHistory(w *mon.W, c c09Case) {
	xs := mon.Un(c.Xs)
	var ws []float64
	if c.HasW {
		ws = mon.Un(c.Ws)
	}
	j := &c09Ctx{w: w, c: c}
	n := len(xs)
	w.HitIf(n == 0, "hist-n=0")
	w.HitIf(n == 1, "hist-n=1")
	w.HitIf(c.HasW, "hist-weighted")
	w.HitIf(!c.HasW, "hist-unweighted")
	sorted := c.Sorted && c09Ascending(xs)
	w.HitIf(sorted, "hist-initially-flagged-Sorted")
	h := mon.NewHasher().Fs(xs).Fs(ws).I(len(c.Ops))
	for _, op := range c.Ops {
		h = h.S(op.Op).I(op.Obj).I(op.J).F(float64(op.V))
	}
	defer func() { w.Distinct(h.Sum()) }()

	ix := c09Clone(xs)
	if ix == nil {
		ix = []float64{}
	}
	objs := []*c09Obj{{s: &stats.Sample{Xs: ix, Weights: c09Clone(ws), Sorted: sorted}, xs: c09Clone(ix), ws: c09Clone(ws)}}
	copied := false

	for step, op := range c.Ops {
		if op.Obj < 0 || op.Obj >= len(objs) {
			continue
		}
		o := objs[op.Obj]
		label := fmt.Sprintf("step %d %s(obj %d)", step, op.Op, op.Obj)
		switch op.Op {
		case "sort":
			before := c09Pairs(o.xs, o.ws)
			wasAsc := c09Ascending(o.xs)
			if o.ws != nil && !wasAsc {
				w.Hit("hist-sort-weighted")
				tieDiffW := false
				for i := 1; i < len(before); i++ {
					if before[i][0] == before[i-1][0] && before[i][1] != before[i-1][1] {
						tieDiffW = true
					}
				}
				w.HitIf(tieDiffW, "weighted-sort-ties")
			}
			w.HitIf(o.ws == nil && !wasAsc, "hist-sort-unweighted")
			w.HitIf(wasAsc, "hist-sort-already-ascending")
			var p *stats.Sample
			if !j.call("Sample.Sort", label, func() { p = o.s.Sort() }) {
				return
			}
			if p != o.s {
				j.bad("sort-return", fmt.Sprintf("%s: Sort did not return its receiver", label))
				return
			}
			if !o.s.Sorted {
				j.bad("sort-flag", fmt.Sprintf("%s: Sorted is false after Sort", label))
				return
			}
			if len(o.s.Xs) != len(o.xs) || (o.ws == nil) != (o.s.Weights == nil) || (o.ws != nil && len(o.s.Weights) != len(o.ws)) {
				j.bad("sort-shape", fmt.Sprintf("%s: lengths changed: Xs %d->%d, Weights %v->%v", label, len(o.xs), len(o.s.Xs), o.ws, o.s.Weights))
				return
			}
			if !c09Ascending(o.s.Xs) {
				j.bad("sort-order", fmt.Sprintf("%s: values not ascending after Sort: %v", label, o.s.Xs))
				return
			}
			if !c09PairsEqual(before, c09Pairs(o.s.Xs, o.s.Weights)) {
				j.bad("sort-pairs", fmt.Sprintf("%s: Sort changed the multiset of (value, weight) pairs: before Xs=%v Weights=%v, after Xs=%v Weights=%v", label, o.xs, o.ws, o.s.Xs, o.s.Weights))
				return
			}
			o.xs, o.ws = c09Clone(o.s.Xs), c09Clone(o.s.Weights)
			j.verifyAll(objs, label)
		case "copy":
			var cp *stats.Sample
			if !j.call("Sample.Copy", label, func() { cp = o.s.Copy() }) {
				return
			}
			if cp == nil || cp == o.s {
				j.bad("copy-identity", fmt.Sprintf("%s: Copy returned %p for receiver %p", label, cp, o.s))
				return
			}
			if len(cp.Xs) != len(o.xs) || (cp.Weights != nil && len(cp.Weights) != len(cp.Xs)) ||
				(len(o.xs) > 0 && (cp.Weights == nil) != (o.ws == nil)) ||
				!c09PairsEqual(c09Pairs(o.xs, o.ws), c09Pairs(cp.Xs, cp.Weights)) {
				j.bad("copy-content", fmt.Sprintf("%s: Copy holds Xs=%v Weights=%v, original Xs=%v Weights=%v", label, cp.Xs, cp.Weights, o.xs, o.ws))
				return
			}
			if cp.Sorted && !c09Ascending(cp.Xs) {
				j.bad("copy-flag", fmt.Sprintf("%s: Copy is marked Sorted but holds %v", label, cp.Xs))
				return
			}
			for _, a := range [][]float64{cp.Xs, cp.Weights} {
				for k, other := range objs {
					if c09Overlap(a, other.s.Xs) || c09Overlap(a, other.s.Weights) {
						j.bad("copy-shares-storage", fmt.Sprintf("%s: the copy's backing array overlaps storage of object %d", label, k))
						return
					}
				}
			}
			if c09Overlap(cp.Xs, cp.Weights) {
				j.bad("copy-shares-storage", fmt.Sprintf("%s: the copy's Xs and Weights overlap", label))
				return
			}
			no := &c09Obj{s: cp, xs: c09Clone(cp.Xs), ws: c09Clone(cp.Weights), d: o.d}
			if no.xs == nil {
				no.xs = []float64{}
				cp.Xs = []float64{}
			}
			objs = append(objs, no)
			copied = true
			j.verifyAll(objs, label)
		case "query":
			if o.d == nil {
				o.d = ref.Describe(o.xs, o.ws)
			}
			c09HistClass(w, o)
			j.query(*o.s, o.d, label)
			if j.stop {
				return
			}
			j.verifyAll(objs, label)
		case "mutx", "mutw":
			if len(o.xs) == 0 || op.J < 0 || op.J >= len(o.xs) || (op.Op == "mutw" && o.ws == nil) {
				continue
			}
			// the caller writes through one object: visible there, nowhere else
			if op.Op == "mutx" {
				o.s.Xs[op.J] = float64(op.V)
				o.xs[op.J] = float64(op.V)
				o.s.Sorted = false
			} else {
				o.s.Weights[op.J] = float64(op.V)
				o.ws[op.J] = float64(op.V)
			}
			o.d = nil
			w.HitIf(copied, "hist-mutate-after-copy")
			if v := math.Abs(float64(op.V)); op.Op == "mutx" {
				w.HitIf(v == math.MaxFloat64, "hist-write-maxfloat")
				w.HitIf(v == c09Quantum, "hist-write-smallest-nonzero")
			} else {
				w.HitIf(v >= 1e13, "hist-write-weight>=1e13")
			}
			j.verifyAll(objs, label)
		case "flag":
			if c09Ascending(o.xs) {
				o.s.Sorted = true
			}
		}
		if j.stop {
			return
		}
	}
	// final agreement of every object with fresh computation
	for k, o := range objs {
		if o.d == nil {
			o.d = ref.Describe(o.xs, o.ws)
		}
		c09HistClass(w, o)
		j.query(*o.s, o.d, fmt.Sprintf("final query (obj %d)", k))
		if j.stop {
			return
		}
	}
	j.verifyAll(objs, "final queries")
	if w.WantSample() && n >= 2 && n <= 5 && len(c.Ops) >= 3 {
		w.Sample(map[string]any{"kind": "history", "xs": c.Xs, "ws": c.Ws, "ops": c.Ops, "objects": len(objs)})
	}
}

// ---------------------------------------------------------------------------
// vec

func c09JudgeVSum(w *mon.W, c c09Case) {
	xs := mon.Un(c.Xs)
	j := &c09Ctx{w: w, c: c}
	n := len(xs)
	w.HitIf(n == 0, "vsum-n=0")
	w.HitIf(n > 0, "vsum")
	w.Distinct(mon.NewHasher().S("vsum").Fs(xs).Sum())
	exact := ref.F64(ref.SumF(xs))
	sa := 0.0
	for _, x := range xs {
		sa += math.Abs(x)
	}
	cx := c09Clone(xs)
	var got float64
	if !j.call("vec.Sum", "vsum", func() { got = vec.Sum(cx) }) {
		return
	}
	nn := n
	if nn < 1 {
		nn = 1
	}
	j.value("vec.Sum", "vsum", got, exact, 16*float64(nn)*c09Eps*sa)
	if !c09BitsEqual(cx, xs) {
		j.bad("input-modified", "vec.Sum modified its input")
	}
}

// c09LinExact is lo + i (hi-lo)/(num-1) in big arithmetic.
func c09LinExact(lo, hi float64, i, num int) float64 {
	d := ref.Sub(ref.NF(hi), ref.NF(lo))
	t := ref.Quo(ref.Mul(ref.NI(int64(i)), d), ref.NI(int64(num-1)))
	return ref.F64(ref.Add(ref.NF(lo), t))
}

func c09JudgeLinspace(w *mon.W, c c09Case) {
	lo, hi, num := float64(c.Lo), float64(c.Hi), c.Num
	j := &c09Ctx{w: w, c: c}
	if num < 0 {
		return
	}
	scale := math.Max(math.Abs(lo), math.Abs(hi))
	w.HitIf(num == 0, "linspace-num=0")
	w.HitIf(num == 1, "linspace-num=1")
	w.HitIf(num == 2, "linspace-num=2")
	w.HitIf(num >= 3, "linspace-num>=3")
	w.HitIf(lo > hi, "linspace-descending")
	w.HitIf(lo == hi, "linspace-lo=hi")
	w.HitIf(lo != hi && math.Abs(hi-lo) <= 1e-6*scale, "linspace-offset")
	// bottom and top of the range (inputs only): a spacing (hi-lo)/(num-1)
	// below the smallest normal number is a whole number of quanta only after
	// rounding; |lo| or |hi| near MaxFloat64
	w.HitIf(num >= 3 && lo != hi && math.Abs(hi/2-lo/2) < 0x1p-1023*float64(num-1), "linspace-subnormal-spacing")
	w.HitIf(num >= 3 && lo != hi && scale < 0x1p-1022, "linspace-all-subnormal")
	w.HitIf(num >= 2 && lo != hi && scale >= 1e300, "linspace-huge")
	w.HitIf(num >= 1, "linspace-called-twice")
	w.Distinct(mon.NewHasher().S("linspace").F(lo).F(hi).I(num).Sum())
	// two calls with equal arguments; the caller overwrites the first result
	// (all of it, and its spare capacity) before the second call is made
	var first, res []float64
	if !j.call("vec.Linspace", "linspace", func() { first = vec.Linspace(lo, hi, num) }) {
		return
	}
	got1 := c09Clone(first)
	c09Scribble(first)
	if !j.call("vec.Linspace", "linspace, second call", func() { res = vec.Linspace(lo, hi, num) }) {
		return
	}
	if c09Overlap(first, res) {
		j.bad("linspace-storage", fmt.Sprintf("two calls of Linspace(%v,%v,%d) returned slices that share storage", lo, hi, num))
		return
	}
	// 16 eps of the scale, plus 4 quanta: the exact value is rounded to a
	// whole number of quanta, and so is each subnormal intermediate result
	tol := 16*c09Eps*scale + 4*c09Quantum
	var want []float64
	for k, r := range [][]float64{got1, res} {
		call := []string{"first call", "second call with the same arguments, after the caller overwrote the first result"}[k]
		if len(r) != num {
			j.bad("linspace-len", fmt.Sprintf("Linspace(%v,%v,%d) has %d values (%s)", lo, hi, num, len(r), call))
			return
		}
		if num == 1 {
			if r[0] != lo {
				j.bad("linspace-one", fmt.Sprintf("Linspace(%v,%v,1) = %v, want [lo] (%s)", lo, hi, r, call))
				return
			}
			continue
		}
		if want == nil {
			want = make([]float64, num)
			for i := range want {
				want[i] = c09LinExact(lo, hi, i, num)
			}
		}
		for i := 0; i < num; i++ {
			if math.IsInf(r[i], 0) && (r[i] > 0) == (want[i] > 0) && math.Abs(want[i])/2+tol/2 >= math.MaxFloat64/2 {
				// the exact value plus the tolerance lies beyond the largest
				// finite number: the infinity is its correct rounding
				w.Note("overflow-accepted:exact-value-plus-tolerance-exceeds-MaxFloat64")
				continue
			}
			if !w.Err("vec.Linspace", math.Abs(r[i]-want[i]), tol) {
				j.bad("linspace-value", fmt.Sprintf("Linspace(%v,%v,%d)[%d] = %.17g, exact %.17g (tol %.3g; %s)", lo, hi, num, i, r[i], want[i], tol, call))
				return
			}
		}
	}
	if !c09Scribbled(first) {
		j.bad("linspace-storage", fmt.Sprintf("the second call of Linspace(%v,%v,%d) wrote into the result of the first", lo, hi, num))
		return
	}
	if w.WantSample() && num >= 3 && num <= 5 {
		w.Sample(map[string]any{"kind": "linspace", "lo": lo, "hi": hi, "num": num, "got": res})
	}
}

// c09Scribble overwrites a result the caller owns: every element and the
// spare capacity. c09Scribbled says whether all of it is still there.
func c09Scribble(xs []float64) {
	xs = xs[:cap(xs)]
	for i := range xs {
		xs[i] = c09Canary
	}
}

func c09Scribbled(xs []float64) bool {
	for _, x := range xs[:cap(xs)] {
		if x != c09Canary {
			return false
		}
	}
	return true
}

func c09JudgeLogspace(w *mon.W, c c09Case) {
	lo, hi, num, base := float64(c.Lo), float64(c.Hi), c.Num, float64(c.Base)
	j := &c09Ctx{w: w, c: c}
	if num < 0 || !(base > 0) {
		return
	}
	scale := math.Max(math.Abs(lo), math.Abs(hi))
	lb := math.Abs(math.Log(base))
	if lb*scale > 650 {
		return // base**x would leave the float64 range: outside the workload
	}
	w.HitIf(num == 0, "logspace-num=0")
	w.HitIf(num == 1, "logspace-num=1")
	w.HitIf(num >= 2, "logspace-num>=2")
	w.HitIf(base < 1, "logspace-base<1")
	w.HitIf(base == 1, "logspace-base=1")
	w.HitIf(num >= 200, "logspace-num>=200")
	w.HitIf(num >= 1000, "logspace-num>=1000")
	// many values and a tight tolerance: an error that grows with the index
	// (a progression built by repeated multiplication) shows here
	w.HitIf(num >= 1000 && lb*scale <= 8 && base != 1 && lo != hi, "logspace-num>=1000-small-exponents")
	w.HitIf(num >= 1, "logspace-called-twice")
	w.Distinct(mon.NewHasher().S("logspace").F(lo).F(hi).I(num).F(base).Sum())
	// two calls with equal arguments; the caller overwrites the first result
	// (all of it, and its spare capacity) before the second call is made
	var first, second []float64
	if !j.call("vec.Logspace", "logspace", func() { first = vec.Logspace(lo, hi, num, base) }) {
		return
	}
	got1 := c09Clone(first)
	c09Scribble(first)
	if !j.call("vec.Logspace", "logspace, second call", func() { second = vec.Logspace(lo, hi, num, base) }) {
		return
	}
	if c09Overlap(first, second) {
		j.bad("logspace-storage", fmt.Sprintf("two calls of Logspace(%v,%v,%d,%v) returned slices that share storage", lo, hi, num, base))
		return
	}
	for k, r := range [][]float64{got1, second} {
		if len(r) != num {
			j.bad("logspace-len", fmt.Sprintf("Logspace(%v,%v,%d,%v) has %d values (call %d)", lo, hi, num, base, len(r), k+1))
			return
		}
	}
	// every element against base**(lo + i (hi-lo)/(num-1)) with one relative
	// tolerance for the whole vector: it does not grow with the index
	rel := 16 * c09Eps * (2 + lb*scale)
	lnb := ref.Log(ref.NF(base))
	d := ref.Sub(ref.NF(hi), ref.NF(lo))
	for i := 0; i < num; i++ {
		var e = ref.NF(lo)
		if num > 1 {
			e = ref.Add(ref.NF(lo), ref.Quo(ref.Mul(ref.NI(int64(i)), d), ref.NI(int64(num-1))))
		}
		want := 1.0
		if e.Sign() != 0 {
			want = ref.F64(ref.Exp(ref.Mul(e, lnb))) // = ref.Pow(base, e)
		}
		oracle := "vec.Logspace"
		if num >= 2 && (i == 0 || i == num-1) {
			oracle = "vec.Logspace:end-point"
		}
		for k, r := range [][]float64{got1, second} {
			if !w.Err(oracle, math.Abs(r[i]-want), rel*want) {
				call := []string{"first call", "second call with the same arguments, after the caller overwrote the first result"}[k]
				j.bad("logspace-value", fmt.Sprintf("Logspace(%v,%v,%d,%v)[%d] = %.17g, base**Linspace = %.17g (|rel err| %.3g > rel tol %.3g, the same for every index; %s)", lo, hi, num, base, i, r[i], want, math.Abs(r[i]-want)/want, rel, call))
				return
			}
		}
	}
	if !c09Scribbled(first) {
		j.bad("logspace-storage", fmt.Sprintf("the second call of Logspace(%v,%v,%d,%v) wrote into the result of the first", lo, hi, num, base))
	}
}

// c09Fns are pure, goroutine-safe functions handed to Map/Vectorize.
var c09Fns = []func(float64) float64{
	func(x float64) float64 { return x*x + 1 },
	math.Sin,
	func(x float64) float64 { // scrambles the bits into a finite value
		b := math.Float64bits(x) * 0x9e3779b97f4a7c15
		b ^= b >> 29
		return float64(int64(b>>11)) / 1024
	},
	func(x float64) float64 { return 1 / x },
	math.Sqrt,
	func(x float64) float64 { return x },
	func(x float64) float64 { return 42 },
	func(x float64) float64 { return -x },
}

// c09MapInputs lists the inputs one closure returned by Vectorize (and Map)
// is applied to in turn: xs first, then inputs of equal length (xs rotated,
// so that the results differ wherever xs is not constant) and of unequal
// length.
func c09MapInputs(xs []float64, seq int) (ins [][]float64, equal, unequal bool) {
	n := len(xs)
	rot := func(k int) []float64 {
		out := make([]float64, n)
		for i := range out {
			out[i] = xs[(i+k)%n]
		}
		return out
	}
	short := []float64{2.5, -1, 7}
	if n >= 2 {
		short = c09Clone(xs[:n/2])
	}
	ins = [][]float64{c09Clone(xs)}
	if ins[0] == nil {
		ins[0] = []float64{}
	}
	switch seq {
	case 1:
		ins = append(ins, rot(1))
	case 2:
		ins = append(ins, rot(1), short)
	case 3:
		ins = append(ins, short, rot(1))
	case 4:
		ins = append(ins, rot(1), rot(2))
	}
	return ins, seq == 1 || seq == 2 || seq == 4, seq == 2 || seq == 3
}

// c09Tracker counts, per argument bit pattern, the calls of the function
// handed to Map/Vectorize (which may call it from several goroutines).
type c09Tracker struct {
	mu    sync.Mutex
	seen  map[uint64]int
	calls int
}

func c09Key(x float64) uint64 {
	if math.IsNaN(x) {
		return 0x7ff8000000000001
	}
	return math.Float64bits(x)
}

func (t *c09Tracker) reset() {
	t.mu.Lock()
	t.seen, t.calls = map[uint64]int{}, 0
	t.mu.Unlock()
}

func (t *c09Tracker) hit(x float64) {
	t.mu.Lock()
	t.seen[c09Key(x)]++
	t.calls++
	t.mu.Unlock()
}

func c09JudgeMap(w *mon.W, c c09Case) {
	xs := mon.Un(c.Xs)
	j := &c09Ctx{w: w, c: c}
	if c.Fn < 0 || c.Fn >= len(c09Fns) {
		return
	}
	f := c09Fns[c.Fn]
	tr := &c09Tracker{}
	cf := func(x float64) float64 { tr.hit(x); return f(x) }
	n := len(xs)
	ins, equal, unequal := c09MapInputs(xs, c.Seq)
	w.HitIf(n == 0, "map-n=0")
	w.HitIf(n > 0, "map")
	w.HitIf(n >= 128, "map-n>=128")
	w.HitIf(n >= 128 && n%16 != 0, "map-n>=128-ragged")
	w.HitIf(n >= 1000, "map-n>=1000")
	w.HitIf(equal && n > 0, "map-repeat-equal-length")
	w.HitIf(unequal, "map-repeat-unequal-length")
	w.Distinct(mon.NewHasher().S("map").Fs(xs).I(c.Fn).I(c.Seq).Sum())
	same := func(a, b float64) bool {
		return math.Float64bits(a) == math.Float64bits(b) || (math.IsNaN(a) && math.IsNaN(b))
	}
	for _, via := range []string{"vec.Map", "vec.Vectorize"} {
		// one closure per case for Vectorize, applied to every input in turn
		var g func([]float64) []float64
		if via == "vec.Vectorize" {
			if !j.call("vec.Vectorize", via, func() { g = vec.Vectorize(cf) }) {
				return
			}
			if g == nil {
				j.bad("map-len", "vec.Vectorize returned a nil function")
				return
			}
		}
		args := make([][]float64, len(ins)) // what the library is handed
		ress := make([][]float64, len(ins))
		tr.reset() // calls are counted over all applications (a closure that remembers earlier evaluations is not excluded)
		for k, in := range ins {
			cx := c09Clone(in)
			if len(in) == 0 && c.Fn%2 == 1 {
				cx = nil
			}
			args[k] = cx
			label := fmt.Sprintf("%s call %d", via, k)
			var res []float64
			ok := false
			if g == nil {
				ok = j.call(via, label, func() { res = vec.Map(cf, cx) })
			} else {
				ok = j.call(via, label, func() { res = g(cx) })
			}
			if !ok {
				return
			}
			ress[k] = res
			if len(res) != len(in) {
				j.bad("map-len", fmt.Sprintf("%s over %d values returned %d", label, len(in), len(res)))
				return
			}
			for i, x := range in {
				if want := f(x); !same(res[i], want) {
					j.bad("map-value", fmt.Sprintf("%s over %d values: result[%d] = %v, f(%v) = %v", label, len(in), i, res[i], x, want))
					return
				}
			}
			// f is a black box: a result element can only come from a call of
			// f with that element's value (how many calls, in which order and
			// on which goroutine is free)
			tr.mu.Lock()
			missing, at := false, 0
			for i, x := range in {
				if tr.seen[c09Key(x)] == 0 {
					missing, at = true, i
					break
				}
			}
			tr.mu.Unlock()
			if missing {
				j.bad("map-not-called", fmt.Sprintf("%s over %d values: f was never called with element %d (%v)", label, len(in), at, in[at]))
				return
			}
		}
		// afterwards: every earlier result still holds f of its own input,
		// no input was written, and every call returned storage of its own
		for k, in := range ins {
			if !c09BitsEqual(args[k], in) {
				j.bad("input-modified", fmt.Sprintf("%s modified the input of call %d", via, k))
				return
			}
			for i, x := range in {
				if want := f(x); !same(ress[k][i], want) {
					j.bad("map-result-overwritten", fmt.Sprintf("%s: after %d calls (input lengths %v) the result of call %d changed: result[%d] = %v, f(%v) = %v", via, len(ins), c09Lens(ins), k, i, ress[k][i], x, want))
					return
				}
			}
			for l := range ins {
				if c09Overlap(ress[k], args[l]) {
					j.bad("map-storage", fmt.Sprintf("%s: the result of call %d shares storage with the input of call %d", via, k, l))
					return
				}
				if l > k && c09Overlap(ress[k], ress[l]) {
					j.bad("map-storage", fmt.Sprintf("%s: the results of calls %d and %d (input lengths %v) share storage", via, k, l, c09Lens(ins)))
					return
				}
			}
		}
	}
}

func c09Lens(ins [][]float64) []int {
	out := make([]int, len(ins))
	for i := range ins {
		out[i] = len(ins[i])
	}
	return out
}

const c09Canary = -7.25e77

func c09JudgeConcat(w *mon.W, c c09Case) {
	j := &c09Ctx{w: w, c: c}
	k := len(c.Parts)
	if len(c.Caps) != k || len(c.Nil) != k || len(c.Alias) != k {
		return
	}
	parts := make([][]float64, k)
	backing := make([][]float64, k)
	var want []float64
	h := mon.NewHasher().S("concat").I(k)
	for i := range parts {
		if a := c.Alias[i]; a >= 0 && a < i {
			parts[i], backing[i] = parts[a], nil
		} else if c.Nil[i] {
			parts[i] = nil
		} else {
			vals := mon.Un(c.Parts[i])
			b := make([]float64, len(vals)+c.Caps[i])
			copy(b, vals)
			for q := len(vals); q < len(b); q++ {
				b[q] = c09Canary
			}
			backing[i] = b
			parts[i] = b[:len(vals)]
		}
		want = append(want, parts[i]...)
		h = h.Fs(parts[i]).I(cap(parts[i]))
	}
	w.HitIf(k == 0, "concat-no-args")
	w.HitIf(k > 0 && len(want) == 0, "concat-all-empty")
	w.HitIf(k > 0 && len(parts[0]) > 0 && cap(parts[0]) > len(parts[0]), "concat-first-has-spare-capacity")
	w.HitIf(len(want) > 0, "concat")
	w.Distinct(h.Sum())
	snap := make([][]float64, k)
	for i := range backing {
		snap[i] = c09Clone(backing[i])
	}
	var out []float64
	if !j.call("vec.Concat", "concat", func() { out = vec.Concat(parts...) }) {
		return
	}
	if !c09BitsEqual(out, want) {
		j.bad("concat-value", fmt.Sprintf("Concat = %v, the concatenation is %v", out, want))
		return
	}
	check := func(when string) bool {
		for i := range backing {
			if !c09BitsEqual(backing[i], snap[i]) {
				j.bad("concat-input-modified", fmt.Sprintf("%s: argument %d (including its spare capacity) changed from %v to %v", when, i, snap[i], backing[i]))
				return false
			}
		}
		return true
	}
	if !check("after Concat") {
		return
	}
	for i := range backing {
		if c09Overlap(out, backing[i]) {
			j.bad("concat-storage", fmt.Sprintf("Concat returned storage shared with argument %d", i))
			return
		}
	}
	for i := range out {
		out[i] = 12345
	}
	check("after writing through the result")
}

// ---------------------------------------------------------------------------
// generators

// c09Values draws n values of one of the shapes named in the design.
func c09Values(rng *mon.Rand, shape, n int) []float64 {
	xs := make([]float64, n)
	switch shape {
	case 0, 1, 2: // offset + spread*N(0,1); shape 0 forces offset/spread >= 1e8
		ratio := math.Pow(10, rng.Uniform(0, 9))
		if shape == 0 {
			ratio = math.Pow(10, rng.Uniform(8.3, 9))
		}
		spread := math.Pow(10, rng.Uniform(-30, 30))
		off := rng.Sign() * ratio * spread
		for i := range xs {
			xs[i] = off + spread*rng.Norm()
		}
	case 3: // ties: few distinct values
		k := 1 + rng.Intn(4)
		vals := c09Values(rng, 1+rng.Intn(2), k)
		if rng.Intn(3) == 0 {
			for i := range vals {
				vals[i] = float64(rng.Range(1, 6))
			}
		}
		for i := range xs {
			xs[i] = vals[rng.Intn(k)]
		}
	case 4: // positive, many magnitudes
		for i := range xs {
			xs[i] = math.Pow(10, rng.Uniform(-60, 60))
		}
	case 5: // small integers, zeros of both signs
		for i := range xs {
			xs[i] = float64(rng.Range(-5, 20))
			if xs[i] == 0 && rng.Bool() {
				xs[i] = math.Copysign(0, -1)
			}
		}
	case 6: // constant, or constant with one value a hair off
		v := rng.Sign() * math.Pow(10, rng.Uniform(-20, 20))
		if rng.Intn(3) == 0 {
			v = 0.1
		}
		for i := range xs {
			xs[i] = v
		}
		if n > 0 && rng.Intn(3) == 0 {
			xs[rng.Intn(n)] = v * (1 + 1e-7)
		}
	case 7: // one outlier
		s := math.Pow(10, rng.Uniform(-20, 20))
		for i := range xs {
			xs[i] = s * rng.Norm()
		}
		if n > 0 {
			xs[rng.Intn(n)] = rng.Sign() * s * 1e12
		}
	case 8: // positive, narrow; every third draw has exact zeros and nothing negative
		s := math.Pow(10, rng.Uniform(-40, 40))
		for i := range xs {
			xs[i] = s * rng.Uniform(0.5, 2)
		}
		if n > 0 && rng.Intn(3) == 0 {
			for k := rng.Range(1, 2); k > 0; k-- {
				xs[rng.Intn(n)] = math.Copysign(0, float64(rng.Intn(2))-0.5)
			}
		}
	case 9: // cancelling pairs
		s := math.Pow(10, rng.Uniform(-20, 20))
		for i := 0; i < n; i += 2 {
			a := s * rng.LogUniform(1, 1e10)
			xs[i] = a
			if i+1 < n {
				xs[i+1] = -a * (1 + 1e-9*rng.Norm())
			}
		}
		rng.ShuffleF(xs)
	case 10: // any sign, many magnitudes
		for i := range xs {
			xs[i] = rng.Sign() * math.Pow(10, rng.Uniform(-20, 20))
		}
	default: // positive with a large offset (GeoMean and weighted paths at hostile offsets)
		spread := math.Pow(10, rng.Uniform(-10, 10))
		off := spread * math.Pow(10, rng.Uniform(3, 9))
		for i := range xs {
			xs[i] = off + spread*rng.Norm()
		}
	}
	switch rng.Intn(6) {
	case 0:
		sort.Float64s(xs)
	case 1:
		sort.Sort(sort.Reverse(sort.Float64Slice(xs)))
	}
	return xs
}

// c09HugeValues draws values at the top of the float64 range, all of one
// sign (so that no difference of two values overflows): the statement covers
// any finite data.
//
//	0  every |x| in 1e305..1e307: the plain sum of some twenty values overflows
//	1  huge (1e300..1e307) and small (1e-200..1) values mixed
//	2  a huge offset with a tiny relative spread, or exactly constant
//	3  |x| in 1e290..1e298: the sum is finite and judged
//	4  any sign, |x| in 1e60..1e140: the squares stay finite, Variance is judged
func c09HugeValues(rng *mon.Rand, variant, n int) []float64 {
	xs := make([]float64, n)
	sg := rng.Sign()
	switch variant {
	case 0:
		for i := range xs {
			xs[i] = sg * math.Pow(10, rng.Uniform(305, 307))
		}
	case 1:
		for i := range xs {
			if rng.Intn(3) == 0 {
				xs[i] = sg * math.Pow(10, rng.Uniform(300, 307))
			} else {
				xs[i] = sg * math.Pow(10, rng.Uniform(-200, 0))
			}
		}
		if n > 0 {
			xs[rng.Intn(n)] = sg * math.Pow(10, rng.Uniform(306, 307))
		}
		if n > 1 && rng.Bool() { // the naive sum overflows although most values are small
			for k := 0; k < 20 && k < n; k++ {
				xs[rng.Intn(n)] = sg * math.Pow(10, rng.Uniform(306.5, 307))
			}
		}
	case 2:
		s := sg * math.Pow(10, rng.Uniform(306, 306.99))
		rel := rng.Pick(0, 1e-15, 1e-12, 1e-6)
		for i := range xs {
			xs[i] = s * (1 + rel*rng.Norm())
		}
	case 3:
		for i := range xs {
			xs[i] = sg * math.Pow(10, rng.Uniform(290, 298))
		}
	default:
		for i := range xs {
			xs[i] = rng.Sign() * math.Pow(10, rng.Uniform(60, 140))
		}
	}
	for i, x := range xs { // never beyond 1e307 whatever the rounding of Pow
		if math.Abs(x) > 1e307 {
			xs[i] = math.Copysign(1e307, x)
		}
	}
	switch rng.Intn(6) {
	case 0:
		sort.Float64s(xs)
	case 1:
		sort.Sort(sort.Reverse(sort.Float64Slice(xs)))
	}
	return xs
}

// c09GenHuge: samples of c09HugeValues, unweighted or with the usual weight
// vectors (w <= 12, so that no w*x overflows).
func c09GenHuge(rng *mon.Rand, i int) c09Case {
	variant := i % 5
	wmode := (i / 5) % 8 // 0..3 unweighted, 4..7 weight modes 0..3
	n := c09N(rng)
	switch {
	case i%50 == 11:
		n = rng.Range(1, 2)
	case variant == 0 && i%3 == 0:
		n = rng.Range(20, 200) // enough values for the sum to overflow
	}
	xs := c09HugeValues(rng, variant, n)
	c := c09Case{Kind: "sample", Xs: mon.Fs(xs), Seed: rng.Uint64(), NPerm: 4}
	if wmode >= 4 {
		c.HasW = true
		c.Ws = mon.Fs(c09Weights(rng, wmode-4, xs))
	}
	return c
}

// c09GenHugeOffset: unweighted data of one sign whose squares overflow
// float64 (or nearly: |x| >= 1e145): exactly constant data (up to
// MaxFloat64), a huge offset (mostly 1e145..1e160) with a spread of at most
// 1e142 (the squared deviations are far from overflow), and larger spreads
// (nothing is asked of the variance). The first value is as large as the
// others in every order.
func c09GenHugeOffset(rng *mon.Rand, i int) c09Case {
	n := c09N(rng)
	switch {
	case i%10 == 3:
		n = rng.Range(2, 4)
	case n > 60 && i%4 != 0:
		n = rng.Range(2, 60)
	}
	e := rng.Uniform(145, 175)
	if i%7 == 0 {
		e = rng.Uniform(175, 308)
	}
	s := rng.Sign() * math.Pow(10, e)
	if i%31 == 5 {
		s = math.Copysign(math.MaxFloat64, s)
	}
	if math.IsInf(s, 0) || math.Abs(s) > math.MaxFloat64 {
		s = math.Copysign(math.MaxFloat64, s)
	}
	spread := 0.0
	switch (i / 2) % 4 {
	case 0: // exactly constant
	case 1, 2: // the squared deviations stay far from overflow
		if i%7 != 0 {
			e = rng.Uniform(145, 160)
			s = math.Copysign(math.Pow(10, e), s)
		}
		if lo := e - 15.5; lo < 142 {
			spread = math.Pow(10, rng.Uniform(lo, 142))
		}
	default: // the squared deviations are large or overflow (nothing is asked of the variance)
		spread = math.Abs(s) * rng.Pick(1e-15, 1e-12, 1e-9, 1e-6)
		if rng.Bool() {
			spread = math.Pow(10, rng.Uniform(math.Max(e-15.5, 143), 153))
		}
	}
	if e > 180 || math.Abs(s) == math.MaxFloat64 { // a spread of a few ulps would make the variance overflow
		spread = 0
	}
	xs := make([]float64, n)
	for k := range xs {
		xs[k] = s + spread*rng.Norm()
	}
	switch rng.Intn(6) {
	case 0:
		sort.Float64s(xs)
	case 1:
		sort.Sort(sort.Reverse(sort.Float64Slice(xs)))
	}
	return c09Case{Kind: "sample", Xs: mon.Fs(xs), Seed: rng.Uint64(), NPerm: 3}
}

// c09GenTinyWide: every value is tiny (1e-320..1e-290, subnormals, a narrow
// cluster at 1e-323..1e-308) and the weights are whole numbers of 1e13..2^60:
// all equal, spread over that range, or a few light points (1..3) among them.
// The wide vectors are also queried heaviest first (c09JudgeSample).
func c09GenTinyWide(rng *mon.Rand, i int) c09Case {
	n := c09N(rng)
	switch {
	case i%8 == 1:
		n = rng.Range(1, 4)
	case n > 60:
		n = rng.Range(2, 60)
	}
	var xs []float64
	switch i % 4 {
	case 0:
		xs = c09TinyValues(rng, 0, n) // subnormals
	case 1:
		xs = c09TinyValues(rng, 3, n) // narrow cluster
	case 2:
		xs = make([]float64, n)
		for k := range xs {
			xs[k] = math.Pow(10, rng.Uniform(-320, -290))
		}
	default:
		xs = make([]float64, n)
		for k := range xs {
			xs[k] = rng.Sign() * math.Pow(10, rng.Uniform(-320, -290))
		}
	}
	for k, x := range xs { // never above 1e-290 whatever the rounding of Pow
		if math.Abs(x) > 1e-290 {
			xs[k] = math.Copysign(1e-290, x)
		}
	}
	ws := make([]float64, n)
	switch (i / 4) % 4 {
	case 0: // all equal
		h := rng.Pick(1e13, 1e15, 1e17, 0x1p53, 0x1p60)
		for k := range ws {
			ws[k] = h
		}
	case 1: // whole numbers over the whole range
		for k := range ws {
			ws[k] = math.Floor(rng.LogUniform(1e13, 0x1p60))
		}
	case 2: // heavy with a few light points and zeros, heaviest first
		h := rng.Pick(1e13, 1e16, 1e17, 0x1p53, 0x1p60)
		for k := range ws {
			ws[k] = h
			switch rng.Intn(6) {
			case 0:
				ws[k] = float64(rng.Range(1, 3))
			case 1:
				ws[k] = 0
			}
		}
		if n > 0 {
			ws[rng.Intn(n)] = h
		}
		idx := make([]int, n)
		for k := range idx {
			idx[k] = k
		}
		sort.SliceStable(idx, func(a, b int) bool { return ws[idx[a]] > ws[idx[b]] })
		xs, ws = c09Order(xs, ws, idx)
	default: // powers of ten 1e13..1e18
		for k := range ws {
			ws[k] = math.Pow(10, float64(rng.Range(13, 18)))
		}
	}
	return c09Case{Kind: "sample", Xs: mon.Fs(xs), Ws: mon.Fs(ws), HasW: true, Seed: rng.Uint64(), NPerm: 3}
}

// c09GenLinspaceExtreme: Linspace at the two ends of the range.
//
//	0  lo = 0 or a few quanta, hi a whole number of quanta (up to 2^20)
//	1  lo a normal number at 2^-1022..1e-300, hi a few quanta (1..1e4) away
//	2  lo and hi subnormal, any signs
//	3  one end 0, the other at 1e-323..1e-305
//	4  huge: lo at 1e300..MaxFloat64, hi within 1e-12..1e-3 of it (relative)
//	5  huge: two values of 1e300..MaxFloat64 of one sign, or of opposite
//	   signs and below MaxFloat64/2, few points
//
// In the huge variants (num-1)|hi-lo| stays below 1e308: the product
// i (hi-lo) of the defining expression is finite.
func c09GenLinspaceExtreme(rng *mon.Rand, i int) c09Case {
	c := c09Case{Kind: "linspace", Num: rng.PickI(64, 200, 257, 501, 1001)}
	if i%3 == 0 {
		c.Num = rng.Range(3, 60)
	}
	q := c09Quantum
	var lo, hi float64
	switch i % 6 {
	case 0:
		lo = float64(rng.PickI(0, 0, 1, 3)) * q
		hi = math.Floor(rng.LogUniform(1, 0x1p20)) * q
	case 1:
		lo = rng.Pick(0x1p-1022, 0x1p-1021, math.Pow(10, rng.Uniform(-307.6, -300)))
		hi = lo + rng.Sign()*math.Floor(rng.LogUniform(1, 1e4))*q
	case 2:
		lo = rng.Sign() * math.Floor(rng.LogUniform(1, 0x1p52)) * q
		hi = rng.Sign() * math.Floor(rng.LogUniform(1, 0x1p52)) * q
	case 3:
		hi = rng.Sign() * math.Pow(10, rng.Uniform(-323, -305))
	case 4:
		lo = rng.Sign() * rng.Pick(math.MaxFloat64, 1e308, math.Pow(10, rng.Uniform(300, 308)))
		hi = lo * (1 - math.Pow(10, rng.Uniform(-12, -3)))
		if math.Abs(lo) < 1e307 && rng.Bool() {
			hi = lo * (1 + math.Pow(10, rng.Uniform(-12, -3)))
		}
	default:
		lo = math.Pow(10, rng.Uniform(300, 308))
		hi = rng.Pick(math.MaxFloat64, math.Pow(10, rng.Uniform(300, 308)))
		if rng.Intn(3) == 0 {
			lo, hi = lo/2.5, -hi/2.5
		}
		if rng.Bool() {
			lo, hi = -lo, -hi
		}
		c.Num = rng.Range(2, 12)
	}
	if rng.Bool() {
		lo, hi = hi, lo
	}
	if math.Max(math.Abs(lo), math.Abs(hi)) >= 1e300 {
		span := math.Abs(hi - lo)
		for c.Num > 2 && float64(c.Num-1)*span > 1e308 {
			c.Num = 2 + (c.Num-2)/2
		}
	}
	c.Lo, c.Hi = mon.F(lo), mon.F(hi)
	return c
}

func c09N(rng *mon.Rand) int {
	switch rng.Intn(8) {
	case 0:
		return rng.Range(2, 5)
	case 1, 2, 3, 4:
		return rng.Range(2, 40)
	case 5, 6:
		return rng.Range(41, 200)
	default:
		return rng.PickI(199, 200)
	}
}

// c09Weights draws a weight vector for xs. mode: 0 small integers, 1 small
// integers with the smallest and largest values zero-weighted, 2 reals in
// [0.25,8] (a third of them with zeros sprinkled in), 3 special vectors.
func c09Weights(rng *mon.Rand, mode int, xs []float64) []float64 {
	n := len(xs)
	ws := make([]float64, n)
	switch mode {
	case 0, 1:
		for i := range ws {
			ws[i] = float64(rng.Range(0, 5))
		}
		if mode == 1 && n >= 3 {
			asc := c09AscPerm(xs)
			k := 1 + rng.Intn(imin(3, (n-1)/2))
			for q := 0; q < k; q++ {
				ws[asc[q]] = 0
				ws[asc[n-1-q]] = 0
			}
			// make sure something in the middle carries weight
			ws[asc[n/2]] = float64(rng.Range(1, 5))
			// ties of the extreme values must be zero-weighted too
			for i, x := range xs {
				if x == xs[asc[0]] || x == xs[asc[n-1]] {
					ws[i] = 0
				}
			}
			if xs[asc[n/2]] == xs[asc[0]] || xs[asc[n/2]] == xs[asc[n-1]] {
				ws[asc[n/2]] = 0 // constant-ish data: may end all-zero, fine
			}
		}
	case 2:
		zeros := rng.Intn(3) == 0
		for i := range ws {
			ws[i] = rng.LogUniform(0.25, 8)
			if zeros && rng.Intn(4) == 0 {
				ws[i] = 0
			}
		}
	default:
		switch rng.Intn(4) {
		case 0: // all zero
		case 1:
			for i := range ws {
				ws[i] = 1
			}
		case 2:
			for i := range ws {
				ws[i] = float64(rng.Range(0, 12))
			}
		default: // a single weighted value
			if n > 0 {
				ws[rng.Intn(n)] = float64(rng.Range(1, 5))
			}
		}
	}
	return ws
}

// c09WideWeights draws a weight vector with a wide dynamic range, or an
// ordinary one scaled as a whole.
//
//	0  a mix of 1 and 10^k, k = 1..17
//	1  whole numbers, log-uniform over 1..2^53, a few zeros
//	2  an ordinary vector (c09Weights) times 2^+-40 or 2^+-20 (exact scaling)
//	3  10^k (k = 13..17) or 2^53 everywhere except on the smallest and the
//	   largest value, which weigh 1..3
//	4  whole numbers, log-uniform over 1..1e6
//	5  reals, log-uniform over 1e-8..1e8
func c09WideWeights(rng *mon.Rand, mode int, xs []float64) []float64 {
	n := len(xs)
	ws := make([]float64, n)
	switch mode {
	case 0:
		heavy := math.Pow(10, float64(rng.Range(1, 17)))
		for i := range ws {
			ws[i] = rng.Pick(1, heavy)
		}
		if n >= 2 {
			a := rng.Intn(n)
			ws[a], ws[(a+1+rng.Intn(n-1))%n] = 1, heavy
		}
	case 1:
		for i := range ws {
			ws[i] = math.Floor(rng.LogUniform(1, 0x1p53))
			if rng.Intn(8) == 0 {
				ws[i] = 0
			}
		}
		if n > 0 && rng.Bool() {
			ws[rng.Intn(n)] = rng.Pick(0x1p53, 0x1p53-1)
		}
	case 2:
		ws = c09Weights(rng, rng.Intn(4), xs)
		sc := rng.Pick(0x1p40, 0x1p-40, 0x1p20, 0x1p-20)
		for i := range ws {
			ws[i] *= sc
		}
	case 3:
		heavy := rng.Pick(1e13, 1e14, 1e15, 1e16, 1e17, 0x1p53)
		asc := c09AscPerm(xs)
		for i := range ws {
			ws[i] = heavy
			if rng.Intn(6) == 0 {
				ws[i] = 0
			}
		}
		if n >= 3 {
			ws[asc[n/2]] = heavy
		}
		for i, x := range xs {
			if n > 0 && (x == xs[asc[0]] || x == xs[asc[n-1]]) {
				ws[i] = float64(rng.Range(1, 3))
			}
		}
	case 4:
		for i := range ws {
			ws[i] = math.Floor(rng.LogUniform(1, 1e6))
		}
	default:
		for i := range ws {
			ws[i] = rng.LogUniform(1e-8, 1e8)
		}
	}
	return ws
}

// c09GenWide: samples with wide-range or scaled weight vectors. Every sixth
// case is built heaviest first with light points of much larger magnitude:
// the shape in which dropping the light points is visible in the Mean.
func c09GenWide(rng *mon.Rand, i int) c09Case {
	n := c09N(rng)
	if i%25 == 3 {
		n = rng.Range(1, 3)
	}
	c := c09Case{Kind: "sample", HasW: true, Seed: rng.Uint64(), NPerm: 4}
	if i%6 == 5 {
		if n > 60 {
			n = rng.Range(2, 60)
		}
		nh := 1
		if n >= 4 && rng.Intn(3) == 0 {
			nh = rng.Range(2, 3)
		}
		heavy := rng.Pick(1e16, 1e17, 0x1p53, 0x1p54, 0x1p60)
		s := math.Pow(10, rng.Uniform(-20, 20))
		xs, ws := make([]float64, n), make([]float64, n)
		for k := range xs {
			if k < nh {
				xs[k], ws[k] = rng.Sign()*s*rng.Uniform(0.5, 2), heavy
				if rng.Intn(4) == 0 {
					xs[k] = 0
				}
			} else {
				xs[k], ws[k] = rng.Sign()*s*math.Pow(10, rng.Uniform(6, 30)), float64(rng.Range(1, 3))
			}
		}
		if rng.Intn(3) == 0 { // all positive: GeoMean is defined
			for k := range xs {
				xs[k] = math.Abs(xs[k])
				if xs[k] == 0 {
					xs[k] = s
				}
			}
		}
		c.Xs, c.Ws = mon.Fs(xs), mon.Fs(ws)
		return c
	}
	xs := c09Values(rng, (i/6)%12, n)
	c.Xs, c.Ws = mon.Fs(xs), mon.Fs(c09WideWeights(rng, i%6, xs))
	return c
}

// c09TinyValues draws values at the bottom of the float64 range.
//
//	0  subnormals: whole multiples of 5e-324 up to 2^-1022
//	1  positive, 1e-307..1e-250 (normal numbers: GeoMean is judged)
//	2  zeros and a few values of one to four quanta
//	3  a narrow cluster at 1e-323..1e-308
//	4  any sign, 1e-170..1e-150: the squares sit at the underflow threshold
//	5  tiny values next to ordinary ones
//	6  positive, 1e-320..1e-250
func c09TinyValues(rng *mon.Rand, variant, n int) []float64 {
	xs := make([]float64, n)
	sg := 1.0
	if rng.Intn(3) == 0 {
		sg = -1
	}
	switch variant {
	case 0:
		for i := range xs {
			xs[i] = sg * math.Floor(rng.LogUniform(1, 0x1p52)) * c09Quantum
		}
	case 1:
		for i := range xs {
			xs[i] = math.Pow(10, rng.Uniform(-307, -250))
		}
	case 2:
		for i := range xs {
			if rng.Intn(3) == 0 {
				xs[i] = sg * float64(rng.Range(1, 4)) * c09Quantum
			} else if rng.Bool() {
				xs[i] = math.Copysign(0, -1)
			}
		}
		if n > 0 {
			xs[rng.Intn(n)] = sg * c09Quantum
		}
	case 3:
		s := math.Pow(10, rng.Uniform(-323, -308))
		for i := range xs {
			xs[i] = sg * s * rng.Uniform(1, 3)
		}
	case 4:
		for i := range xs {
			xs[i] = rng.Sign() * math.Pow(10, rng.Uniform(-170, -150))
		}
	case 5:
		for i := range xs {
			if rng.Bool() {
				xs[i] = rng.Sign() * math.Pow(10, rng.Uniform(-323, -290))
			} else {
				xs[i] = rng.Sign() * math.Pow(10, rng.Uniform(-5, 5))
			}
		}
		if n > 0 {
			xs[rng.Intn(n)] = math.Pow(10, rng.Uniform(-323, -290))
		}
		if n > 1 {
			xs[rng.Intn(n)] = math.Pow(10, rng.Uniform(-5, 5))
		}
	default:
		for i := range xs {
			xs[i] = math.Pow(10, rng.Uniform(-320, -250))
		}
	}
	if n > 0 && variant != 1 && rng.Intn(3) == 0 {
		xs[rng.Intn(n)] = math.Copysign(c09Quantum, xs[0])
	}
	if variant != 2 && variant != 1 && n > 2 && rng.Intn(4) == 0 { // mixed with zeros
		for k := rng.Range(1, 3); k > 0; k-- {
			xs[rng.Intn(n)] = 0
		}
	}
	switch rng.Intn(6) {
	case 0:
		sort.Float64s(xs)
	case 1:
		sort.Sort(sort.Reverse(sort.Float64Slice(xs)))
	}
	return xs
}

// c09GenTiny: samples of c09TinyValues, unweighted or with the ordinary
// weight vectors (non-zero weights >= 0.25: the half quantum lost in a
// product w*x is not magnified).
func c09GenTiny(rng *mon.Rand, i int) c09Case {
	variant := i % 7
	wmode := (i / 7) % 6 // 0..2 unweighted, 3..5 weight modes 0..2
	n := c09N(rng)
	if i%20 == 9 {
		n = rng.Range(1, 4)
	}
	xs := c09TinyValues(rng, variant, n)
	c := c09Case{Kind: "sample", Xs: mon.Fs(xs), Seed: rng.Uint64(), NPerm: 4}
	if wmode >= 3 {
		c.HasW = true
		c.Ws = mon.Fs(c09Weights(rng, wmode-3, xs))
	}
	return c
}

// c09GenExtreme: the two ends of the type. All non-zero values of a sample
// have one sign and the weights are 0 or 1 (nothing overflows in x-m or w*x).
//
//	0  "saturated": every value of non-zero weight is exactly +-MaxFloat64,
//	   the other values (weight 0) are smaller
//	1  huge values, some of them exactly +-MaxFloat64
//	2  every value of non-zero weight is exactly +-5e-324, the other values
//	   (weight 0) are larger
//	3  +-MaxFloat64, +-5e-324 and zeros together
func c09GenExtreme(rng *mon.Rand, i int) c09Case {
	variant := i % 4
	n := rng.Range(1, 12)
	if i%10 == 7 {
		n = c09N(rng)
	}
	sg := rng.Sign()
	xs, ws := make([]float64, n), make([]float64, n)
	weighted := (i/4)%4 != 0
	switch variant {
	case 0, 2:
		lim := sg * math.MaxFloat64
		if variant == 2 {
			lim = sg * c09Quantum
		}
		for k := range xs {
			if rng.Intn(3) == 0 {
				xs[k], ws[k] = lim, 1
			} else if variant == 0 {
				xs[k] = sg * rng.Pick(1, 0, 1e307, math.Pow(10, rng.Uniform(-300, 308.2)), math.Nextafter(math.MaxFloat64, 0))
			} else {
				xs[k] = sg * rng.Pick(1, 2*c09Quantum, 0x1p-1022, math.Pow(10, rng.Uniform(-323, 300)))
			}
		}
		k := rng.Intn(n)
		xs[k], ws[k] = lim, 1
		if !weighted { // unweighted: every value counts
			for k := range ws {
				ws[k] = 1
			}
		}
	case 1:
		copy(xs, c09HugeValues(rng, rng.Intn(4), n))
		sg = 1
		for _, x := range xs {
			if x < 0 {
				sg = -1
			}
		}
		for k := range xs {
			if rng.Intn(4) == 0 {
				xs[k] = sg * math.MaxFloat64
			}
			ws[k] = float64(rng.Intn(2))
		}
		xs[rng.Intn(n)] = sg * math.MaxFloat64
	default:
		for k := range xs {
			xs[k] = sg * rng.Pick(math.MaxFloat64, c09Quantum, 0, 1, 0x1p-1022)
			ws[k] = float64(rng.Intn(2))
		}
	}
	c := c09Case{Kind: "sample", Xs: mon.Fs(xs), Seed: rng.Uint64(), NPerm: 3}
	if weighted {
		c.HasW = true
		c.Ws = mon.Fs(ws)
	}
	return c
}

// c09GenHistoryExtreme: a history of c09GenHistory in which the caller's
// writes store +-MaxFloat64, +-5e-324, subnormals and zeros into Xs and
// whole-number weights up to 2^53 into Weights (extra writes are inserted).
func c09GenHistoryExtreme(rng *mon.Rand, i int) c09Case {
	c := c09GenHistory(rng, i)
	n := len(c.Xs)
	xv := func() mon.F {
		return mon.F(rng.Pick(math.MaxFloat64, -math.MaxFloat64, c09Quantum, -c09Quantum, 0, 0x1p-1022, 1e-310, 1e307, math.MaxFloat64, c09Quantum))
	}
	wv := func() mon.F { return mon.F(rng.Pick(0, 1, 3e12, 1e13, 1e15, 1e17, 0x1p53, 0x1p53-1)) }
	nobj := 1
	var ops []c09Op
	for _, op := range c.Ops {
		switch op.Op {
		case "mutx":
			if rng.Intn(3) > 0 {
				op.V = xv()
			}
		case "mutw":
			if rng.Intn(3) > 0 {
				op.V = wv()
			}
		}
		ops = append(ops, op)
		if op.Op == "copy" {
			nobj++
		}
		if rng.Intn(3) == 0 {
			e := c09Op{Op: "mutx", Obj: rng.Intn(nobj), J: rng.Intn(imax(n, 1)), V: xv()}
			if c.HasW && rng.Bool() {
				e.Op, e.V = "mutw", wv()
			}
			ops = append(ops, e)
			if rng.Bool() {
				ops = append(ops, c09Op{Op: []string{"query", "sort", "copy"}[rng.Intn(3)], Obj: e.Obj})
				if ops[len(ops)-1].Op == "copy" {
					nobj++
				}
			}
		}
	}
	c.Ops = ops
	return c
}

func imin(a, b int) int {
	if a < b {
		return a
	}
	return b
}

func c09GenSample(rng *mon.Rand, i int) c09Case {
	shape := i % 12
	wmode := (i / 12) % 8 // 0..3 unweighted, 4..7 weight modes 0..3
	var n int
	if i%40 == 7 {
		n = (i / 40) % 2 // n = 0 and n = 1
	} else {
		n = c09N(rng)
	}
	xs := c09Values(rng, shape, n)
	c := c09Case{Kind: "sample", Xs: mon.Fs(xs), Seed: rng.Uint64(), NPerm: 4}
	if wmode >= 4 {
		c.HasW = true
		ws := c09Weights(rng, wmode-4, xs)
		if i%5 == 3 {
			// zero-weight values are not part of the sample: make them
			// non-positive (and make sure there are some) so that a GeoMean
			// that looks at them instead of ignoring them is visible
			allPos := true
			for k := range xs {
				if xs[k] <= 0 && ws[k] != 0 {
					allPos = false
				}
			}
			if allPos && len(xs) >= 2 {
				for k := range xs {
					if rng.Intn(3) == 0 && k > 0 {
						ws[k] = 0
					}
					if ws[k] == 0 {
						xs[k] = rng.Pick(0, math.Copysign(0, -1), -math.Abs(xs[k]), -1)
					}
				}
				c.Xs = mon.Fs(xs)
			}
		}
		c.Ws = mon.Fs(ws)
	}
	return c
}

func c09GenHistory(rng *mon.Rand, i int) c09Case {
	var n int
	switch rng.Intn(10) {
	case 0:
		n = rng.Range(0, 1)
	case 1:
		n = rng.Range(41, 200)
	default:
		n = rng.Range(2, 40)
	}
	shape := rng.PickI(3, 3, 5, 1, 8, 4, 11, 2)
	if i%4 == 0 { // weighted, tied, unsorted: the gating class of Sort
		shape = 3
		if n < 6 {
			n = rng.Range(6, 30)
		}
	}
	xs := c09Values(rng, shape, n)
	c := c09Case{Kind: "history"}
	var ws []float64
	if i%4 == 0 || rng.Intn(3) > 0 {
		c.HasW = true
		ws = c09Weights(rng, rng.PickI(0, 0, 1, 2, 3), xs)
		if i%4 == 0 {
			// distinct weights so that a lost pair cannot hide
			for k := range ws {
				ws[k] = float64(k%7) + float64(rng.Range(0, 1))
			}
			// descending blocks: certainly not ascending
			sort.Sort(sort.Reverse(sort.Float64Slice(xs)))
		}
	}
	if i%4 != 0 && rng.Intn(4) == 0 {
		// ascending initial data, flagged or not
		p := c09AscPerm(xs)
		xs, ws = c09Order(xs, ws, p)
		c.Sorted = rng.Bool()
	}
	c.Xs = mon.Fs(xs)
	if c.HasW {
		c.Ws = mon.Fs(ws)
	}
	nops := rng.Range(1, 12)
	nobj := 1
	for k := 0; k < nops; k++ {
		op := c09Op{Obj: rng.Intn(nobj)}
		r := rng.Intn(20)
		if i%4 == 0 && k == 0 {
			r = 0
		}
		switch {
		case r < 5:
			op.Op = "sort"
		case r < 9:
			op.Op = "copy"
			nobj++
		case r < 14:
			op.Op = "query"
		case r < 17:
			op.Op = "mutx"
			op.J = rng.Intn(imax(n, 1))
			if n > 0 && rng.Bool() {
				op.V = mon.F(xs[rng.Intn(n)])
			} else if n > 0 {
				op.V = mon.F(xs[rng.Intn(n)] * rng.Uniform(0.5, 1.5))
			}
		case r < 19:
			op.Op = "mutw"
			op.J = rng.Intn(imax(n, 1))
			op.V = mon.F(float64(rng.Range(0, 5)))
		default:
			op.Op = "flag"
		}
		c.Ops = append(c.Ops, op)
	}
	return c
}

func imax(a, b int) int {
	if a > b {
		return a
	}
	return b
}

// c09SelfTest: the reference against rational arithmetic and text-book
// values (package ref) and against gonum/stat on well-conditioned data.
func c09SelfTest() error {
	if err := ref.DescSelfTest(); err != nil {
		return err
	}
	rng := mon.NewRand(0xc09)
	for k := 0; k < 40; k++ {
		n := rng.Range(2, 60)
		xs := make([]float64, n)
		ws := make([]float64, n)
		for i := range xs {
			xs[i] = rng.Uniform(1, 3)
			ws[i] = float64(rng.Range(1, 5))
		}
		d := ref.Describe(xs, nil)
		m, v := gstat.MeanVariance(xs, nil)
		g := gstat.GeometricMean(xs, nil)
		if math.Abs(m-d.Mean) > 1e-13 || math.Abs(v-d.Var) > 1e-12*d.Var || math.Abs(g-d.Geo) > 1e-13 {
			return fmt.Errorf("gonum disagrees with the big.Float reference on %v: mean %v/%v var %v/%v geo %v/%v", xs, m, d.Mean, v, d.Var, g, d.Geo)
		}
		dw := ref.Describe(xs, ws)
		mw := gstat.Mean(xs, ws)
		gw := gstat.GeometricMean(xs, ws)
		if math.Abs(mw-dw.Mean) > 1e-13 || math.Abs(gw-dw.Geo) > 1e-13 {
			return fmt.Errorf("gonum disagrees with the weighted reference on %v %v: mean %v/%v geo %v/%v", xs, ws, mw, dw.Mean, gw, dw.Geo)
		}
		de := ref.Describe(ref.Expand(xs, ws), nil)
		if math.Abs(de.Mean-dw.Mean) > 4e-16*dw.Mean || math.Abs(de.Geo-dw.Geo) > 4e-16*dw.Geo || de.Sum != dw.Sum || de.W != dw.W {
			return fmt.Errorf("reference: weighted and repeated descriptions differ on %v %v", xs, ws)
		}
	}
	return nil
}

func c09Run(r *mon.Run) {
	r.Rule("samples: n=0..200 values of 12 shapes (offset/spread up to 1e9, ties, constant, outlier, cancelling pairs, 120 decades of magnitude, integers with signed zeros) and of 5 huge shapes (one sign, |x| up to 1e307: sums that overflow, huge mixed with small, huge offset with tiny spread; |x| 1e290..1e298; any sign 1e60..1e140), unweighted / integer weights 0..5 (also 0..12, all-zero, all-one, single) / real weights in [0.25,8]; every sample is queried (Sum, Weight, Mean, Bounds, GeoMean, Variance, StdDev on the Sample; Mean, GeoMean, Variance, StdDev, Bounds, vec.Sum on the slice) in 8 orders: as given, ascending, ascending with Sorted=true, descending, 4 random permutations; integer-weighted samples also as the sample with each value repeated weight times. histories: up to 12 operations of {Sort, Copy, query, write x, write w, set Sorted on ascending data} over the objects created so far, against the pair-multiset model. vec: Sum, Linspace (num 0..1000, offsets, descending), Logspace (num 0..24 and 200, 257, 1000; every element against base**(exact Linspace) with one relative tolerance for the whole vector), Map/Vectorize (8 functions; 0..200 values and 1000..4099; Map and each Vectorize closure applied 1-3 times to inputs of equal and unequal length, then every result re-checked bit for bit and all results and inputs checked for shared storage; f must have been called with every element), Concat (nil, empty, aliased arguments, canaries in spare capacity). wide weights: mixes of 1 and 10^k (k=1..17), whole-number weights up to 2^53 and up to 1e6, reals over 1e-8..1e8, ordinary vectors scaled as a whole by 2^+-20 / 2^+-40, extreme values at weights <= 1e-12 of the largest, heavy points (1e16..2^60) first with light points of 1e6..1e30 times their magnitude; these samples are also queried heaviest first. tiny: subnormals, 5e-324, 1e-320..1e-250, zeros mixed in, 1e-170..1e-150 (squares at the underflow threshold), tiny next to ordinary values; unweighted and with the ordinary weights. extreme: +-MaxFloat64 and +-5e-324 exactly, also as the only values of non-zero weight (weights 0/1, one sign). histories-extreme: the caller's writes store +-MaxFloat64, +-5e-324, subnormals, zeros and weights 3e12..2^53. huge-offset: unweighted one-signed data at 1e145..MaxFloat64, constant or with a spread of at most 1e142 (sum x^2 overflows, the squared deviations do not), a quarter with larger spreads. tiny-wide-weights: every value in 1e-320..1e-290 or subnormal, whole-number weights 1e13..2^60 (equal, spread, with light points and zeros). linspace-extreme: lo/hi subnormal, a few quanta apart at 2^-1022..1e-300, and at 1e300..MaxFloat64 with (num-1)|hi-lo| <= 1e308. Linspace and Logspace are called twice per case with equal arguments, the first result (and its spare capacity) overwritten in between: both results are judged by value and must not share storage. A case is non-trivial if it hits any class; distinct by hash of the whole case.")
	r.Assume("reference: 384-bit big.Float arithmetic on the exact binary values, cross-checked at start-up against big.Rat, text-book values and gonum/stat",
		"tolerances: 16*nops*eps*kappa*scale from the conditioning of the problem (see the head of props/c09.go); Bounds, Sort, Copy, Map, Concat exact",
		"weighted Variance/StdDev (documented as unimplemented) and weighted GeoMean of samples with a non-positive value of non-zero weight are not called; zero-weight values are not part of the sample (the statement's repeated-sample law), whatever their sign",
		"n<2: Variance/StdDev may be 0 or NaN; empty or zero-total-weight data: Mean, GeoMean and Bounds are NaN, Sum and Weight are 0",
		"ordinary classes: weights are integers 0..12 or reals in {0} u [0.25,8]; |x| within 1e-60..1e60 (any sign), up to 1e140 (any sign, huge class) and up to 1e307 (one sign per sample, huge class; 1e-200 for the small values mixed in); offset/spread <= 1e9",
		"wide weights (largest/smallest non-zero weight > 64, up to 2^60): Sum, Weight, Bounds are judged in every order; Mean and GeoMean are judged with the same conditioning-derived tolerance only in the orders in which an a-priori rounding bound of the incremental recurrence (c09OrderBound, inputs only) is within half the tolerance - heaviest-first orders always are; in the other orders (a light point of large magnitude before a much heavier one) the calls are made but the value is not judged (DESIGN section 6: the incremental weighted mean loses digits there)",
		"tiny data (a non-zero |x| < 1e-280; < 1e-140 for Variance): absolute floor of 8 quanta (5e-324) per operand on Sum, Mean, Variance, 8 quanta on GeoMean; StdDev is only required to be a non-negative number where the exact variance is below 2^-1022; GeoMean of data holding a subnormal value, or beyond 1e307, is only required to be a non-negative number (math.Log / math.Exp of the go1.23 amd64 toolchain are wrong on subnormals / overflow above 709.4); a NaN where the exact value is finite is always a violation",
		"+-MaxFloat64: Mean is judged while max|x|*max(1,max w) <= 1.25e308, beyond that only for one-signed data with weights in {0,1} (x-m and w*x cannot overflow); +Inf is accepted where exact value + tolerance > MaxFloat64; Bounds and Weight are always judged, bit-exactly / to rounding",
		"overflow: Sum is judged only while sum|w x| <= 2^1000 (the exact value is finite and far from overflow); otherwise the call is made (no panic, Sorted-flag law) but its value is not judged; Mean, GeoMean and Bounds of finite data are always judged",
		"Variance/StdDev beyond sum x^2 = 2^960: judged by value (same two-term tolerance, ||x|| from the reference) while n (max-min)^2 <= 2^960 and the tolerance is finite (||x|| up to ~1e165); where that tolerance overflows (in effect constant data beyond ~1e165) required to be a non-negative number (+Inf accepted: the squared rounding error of a mean may overflow in a correct algorithm; NaN and negative values refuted); nothing is asked where n (max-min)^2 > 2^960 (a sum of squared deviations may overflow, and compensated or corrected summation then yields Inf - Inf, although the exact variance can still be finite)",
		"Linspace at the bottom of the range: tolerance 16 eps max(|lo|,|hi|) + 4 quanta (5e-324); at the top only arguments with (num-1)|hi-lo| <= 1e308 are drawn (the defining expression lo + i (hi-lo)/(num-1) is finite term by term)",
		"Map/Vectorize: every result element equals f(x[i]) bit for bit; neither the number of calls of f per element (>= 1 over the life of a closure), their order nor their goroutine is constrained; results are fresh storage per call")
	r.Gate("geomean-nonpositive-values-only-at-zero-weight", "n=0", "n=1", "offset/spread>=1e8", "zero-weight-prefix", "zero-weight-suffix", "zero-weight-first", "all-zero-weights",
		"weighted-sort-ties", "ties", "constant-data", "int-weights", "real-weights", "unweighted",
		"geomean-nonpositive", "geomean-zero-is-the-minimum", "geomean-positive", "hist-n=0", "hist-mutate-after-copy", "hist-sort-unweighted",
		"hist-sorted-bounds-zero-weight-end",
		"linspace-num=0", "linspace-num=1", "linspace-num=2", "linspace-offset", "logspace-num>=2",
		"concat-no-args", "concat-first-has-spare-capacity", "map", "vsum",
		"huge-same-sign", "huge-plain-sum-overflows", "huge-weighted-sum-overflows", "huge-and-small-mixed", "huge-offset-small-spread", "huge-sum-judged", "large-variance-judged",
		"sum-not-judged:exact-value-overflows-or-nearly", "variance-not-judged:squared-deviations-overflow-or-nearly",
		"variance-judged-on-deviations:squares-overflow-or-nearly", "variance-judged-on-deviations:not-constant", "variance-sane-only:squares-overflow-exact-variance-finite",
		"linspace-subnormal-spacing", "linspace-all-subnormal", "linspace-huge", "linspace-called-twice", "logspace-called-twice", "vec-called-twice-on-one-goroutine",
		"tiny-values-at-wide-weights", "tiny-values-at-wide-weights:subnormals-at-weights>=2^53",
		"tiny-values-at-wide-weights-mean-judged", "tiny-values-at-wide-weights-mean-judged:weight-ratio>64",
		"map-n>=128", "map-n>=128-ragged", "map-n>=1000", "map-repeat-equal-length", "map-repeat-unequal-length",
		"logspace-num>=200", "logspace-num>=1000", "logspace-num>=1000-small-exponents",
		"wide-weights", "weight-ratio>=2^53", "wide-integer-weights<=1e6", "int-weights>64", "weights-scaled-by-2^+-40",
		"a-weight-below-half-ulp-of-the-weight-before-it", "extreme-value-only-at-weights<=1e-12*max",
		"wide-weights-mean-judged", "wide-weights-mean-judged:a-weight-below-half-ulp-of-the-weight-before-it",
		"tiny-values", "tiny-all-subnormal", "tiny-1/max|x|-overflows", "tiny-normal-geomean-judged", "tiny-and-ordinary-mixed", "tiny-with-zeros",
		"tiny-variance-underflows", "smallest-nonzero-present", "maxfloat-present", "maxfloat-mean-judged",
		"all-weighted-values-are-maxfloat", "all-weighted-values-are-smallest-nonzero",
		"hist-write-maxfloat", "hist-write-smallest-nonzero", "hist-write-weight>=1e13")
	if err := c09SelfTest(); err != nil {
		r.Inconclusive("reference self-test failed: " + err.Error())
		return
	}

	// enumerated: every weight vector in {0,1,2}^n over every ordering of n
	// distinct values for n <= 4 (all permutations x all weight vectors)
	type enumCase struct {
		xs, ws []float64
	}
	var enum []enumCase
	base := []float64{1.5, 2.25, 4, 7.5}
	for n := 0; n <= 4; n++ {
		perms := c09AllPerms(n)
		nw := 1
		for k := 0; k < n; k++ {
			nw *= 3
		}
		for _, p := range perms {
			xs := make([]float64, n)
			for i, k := range p {
				xs[i] = base[k]
			}
			enum = append(enum, enumCase{xs, nil})
			for code := 0; code < nw; code++ {
				ws := make([]float64, n)
				c := code
				for k := range ws {
					ws[k] = float64(c % 3)
					c /= 3
				}
				enum = append(enum, enumCase{xs, ws})
			}
		}
	}
	r.Exhaustive("all orderings of n<=4 distinct values x all weight vectors in {0,1,2}^n (and unweighted)")
	r.Parallel("enumerated", len(enum), func(w *mon.W, i int) {
		e := enum[i]
		c := c09Case{Kind: "sample", Xs: mon.Fs(e.xs), Seed: uint64(i), NPerm: 0}
		if e.ws != nil {
			c.HasW = true
			c.Ws = mon.Fs(e.ws)
		}
		c09JudgeSample(w, c)
	})

	r.Parallel("samples", r.Pick(10000, 100000), func(w *mon.W, i int) {
		c09JudgeSample(w, c09GenSample(w.Rng, i))
	})
	r.Parallel("samples-huge", r.Pick(800, 8000), func(w *mon.W, i int) {
		c09JudgeSample(w, c09GenHuge(w.Rng, i))
	})
	r.Parallel("histories", r.Pick(5000, 40000), func(w *mon.W, i int) {
		c09JudgeHistory(w, c09GenHistory(w.Rng, i))
	})
	r.Parallel("samples-wide-weights", r.Pick(1000, 10000), func(w *mon.W, i int) {
		c09JudgeSample(w, c09GenWide(w.Rng, i))
	})
	r.Parallel("samples-tiny", r.Pick(800, 8000), func(w *mon.W, i int) {
		c09JudgeSample(w, c09GenTiny(w.Rng, i))
	})
	r.Parallel("samples-extreme", r.Pick(500, 5000), func(w *mon.W, i int) {
		c09JudgeSample(w, c09GenExtreme(w.Rng, i))
	})
	r.Parallel("histories-extreme", r.Pick(500, 5000), func(w *mon.W, i int) {
		c09JudgeHistory(w, c09GenHistoryExtreme(w.Rng, i))
	})
	r.Parallel("samples-huge-offset", r.Pick(250, 2500), func(w *mon.W, i int) {
		c09JudgeSample(w, c09GenHugeOffset(w.Rng, i))
	})
	r.Parallel("samples-tiny-wide-weights", r.Pick(300, 3000), func(w *mon.W, i int) {
		c09JudgeSample(w, c09GenTinyWide(w.Rng, i))
	})

	r.Parallel("vsum", r.Pick(2000, 20000), func(w *mon.W, i int) {
		rng := w.Rng
		n := 0
		if i%10 != 0 {
			n = c09N(rng)
		}
		c09JudgeVSum(w, c09Case{Kind: "vsum", Xs: mon.Fs(c09Values(rng, rng.Intn(12), n))})
	})
	r.Parallel("linspace", r.Pick(3000, 30000), func(w *mon.W, i int) {
		rng := w.Rng
		c := c09Case{Kind: "linspace"}
		switch i % 8 {
		case 0:
			c.Num = i / 8 % 4
		case 1:
			c.Num = rng.PickI(200, 1000, 257)
		default:
			c.Num = rng.Range(2, 60)
		}
		s := math.Pow(10, rng.Uniform(-30, 30))
		switch i % 5 {
		case 0: // offset: the interval is tiny compared with its position
			lo := rng.Sign() * s
			c.Lo, c.Hi = mon.F(lo), mon.F(lo*(1+rng.Sign()*math.Pow(10, rng.Uniform(-12, -6))))
		case 1:
			c.Lo, c.Hi = mon.F(float64(rng.Range(-10, 10))), mon.F(float64(rng.Range(-10, 10)))
		case 2:
			c.Lo, c.Hi = mon.F(s*rng.Norm()), mon.F(s*rng.Norm())
		case 3:
			c.Lo, c.Hi = mon.F(rng.Sign()*math.Pow(10, rng.Uniform(-30, 30))), mon.F(rng.Sign()*math.Pow(10, rng.Uniform(-30, 30)))
		default:
			c.Lo = mon.F(s * rng.Norm())
			c.Hi = c.Lo
			if rng.Bool() {
				c.Hi = mon.F(0)
			}
		}
		c09JudgeLinspace(w, c)
	})
	r.Parallel("linspace-extreme", r.Pick(300, 3000), func(w *mon.W, i int) {
		c09JudgeLinspace(w, c09GenLinspaceExtreme(w.Rng, i))
	})
	// one goroutine: nothing else calls the library between the two calls of
	// a case
	r.Serial("linspace-logspace-repeat", r.Pick(60, 600), func(w *mon.W, i int) {
		rng := w.Rng
		c := c09Case{Kind: "logspace", Num: rng.Range(1, 12), Base: mon.F(rng.Pick(2, 10, math.E, 0.5))}
		c.Lo, c.Hi = mon.F(float64(rng.Range(-6, 6))), mon.F(float64(rng.Range(-6, 6)))
		if i%2 == 1 {
			c.Kind = "linspace"
		}
		w.Hit("vec-called-twice-on-one-goroutine")
		c09Judge(w, c)
	})
	r.Parallel("logspace", r.Pick(1000, 10000), func(w *mon.W, i int) {
		rng := w.Rng
		c := c09Case{Kind: "logspace", Num: rng.Range(0, 24)}
		if i%6 == 0 {
			c.Num = i / 6 % 3
		}
		c.Base = mon.F(rng.Pick(2, 10, math.E, 0.5, 1, 1.5, rng.Uniform(0.1, 20), rng.Uniform(0.1, 20)))
		if rng.Bool() {
			c.Lo, c.Hi = mon.F(float64(rng.Range(-20, 20))), mon.F(float64(rng.Range(-20, 20)))
		} else {
			c.Lo, c.Hi = mon.F(rng.Uniform(-20, 20)), mon.F(rng.Uniform(-20, 20))
		}
		if i%10 == 3 { // many values
			c.Num = rng.PickI(200, 257, 1000)
			if i%20 == 3 {
				// small exponents: the tolerance is a few tens of ulps, an
				// error growing with the index cannot hide in it
				c.Num = 1000
				c.Base = mon.F(rng.Pick(2, 10, math.E, 0.5, 1.5, rng.Uniform(0.1, 0.9), rng.Uniform(1.1, 20)))
				if rng.Bool() {
					c.Lo, c.Hi = mon.F(float64(rng.Range(-2, 0))), mon.F(float64(rng.Range(1, 2)))
				} else {
					c.Lo, c.Hi = mon.F(rng.Uniform(-2, 2)), mon.F(rng.Uniform(-2, 2))
				}
			}
		}
		c09JudgeLogspace(w, c)
	})
	r.Parallel("map", r.Pick(2000, 20000), func(w *mon.W, i int) {
		rng := w.Rng
		n := 0
		switch {
		case i%10 == 0:
		case i%50 == 7:
			n = rng.PickI(1000, 1001, 1027, 2049, 4099)
		case i%5 == 1:
			n = rng.Range(128, 200)
		default:
			n = rng.Range(1, 200)
		}
		xs := c09Values(rng, rng.Intn(12), n)
		for k := range xs {
			switch rng.Intn(12) {
			case 0:
				xs[k] = 0
			case 1:
				xs[k] = math.Inf(rng.Intn(2)*2 - 1)
			case 2:
				xs[k] = math.NaN()
			}
		}
		c09JudgeMap(w, c09Case{Kind: "map", Xs: mon.Fs(xs), Fn: i % len(c09Fns), Seq: rng.Intn(5)})
	})
	r.Parallel("concat", r.Pick(3000, 30000), func(w *mon.W, i int) {
		rng := w.Rng
		k := rng.Range(0, 6)
		if i%10 == 0 {
			k = 0
		}
		c := c09Case{Kind: "concat"}
		for q := 0; q < k; q++ {
			n := rng.Range(0, 12)
			if rng.Intn(4) == 0 {
				n = 0
			}
			xs := make([]float64, n)
			for t := range xs {
				xs[t] = float64(100*q+t) + 0.5
			}
			c.Parts = append(c.Parts, mon.Fs(xs))
			cp := 0
			if rng.Bool() || (q == 0 && i%3 == 0) {
				cp = rng.Range(1, 40)
			}
			c.Caps = append(c.Caps, cp)
			c.Nil = append(c.Nil, n == 0 && rng.Bool())
			al := -1
			if q > 0 && rng.Intn(5) == 0 {
				al = rng.Intn(q)
			}
			c.Alias = append(c.Alias, al)
		}
		c09JudgeConcat(w, c)
	})
}

// c09AllPerms lists all permutations of 0..n-1.
func c09AllPerms(n int) [][]int {
	var out [][]int
	p := make([]int, n)
	used := make([]bool, n)
	var rec func(k int)
	rec = func(k int) {
		if k == n {
			out = append(out, append([]int(nil), p...))
			return
		}
		for v := 0; v < n; v++ {
			if !used[v] {
				used[v] = true
				p[k] = v
				rec(k + 1)
				used[v] = false
			}
		}
	}
	rec(0)
	return out
}
