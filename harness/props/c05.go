package props

import (
	"encoding/json"
	"fmt"
	"math"
	"math/rand"
	"sort"
	"time"

	"github.com/aclements/go-moremath/stats"

	"verifmon/mon"
	"verifmon/ref"
)

// C05 — Normal, Student-t and delta distributions are coherent and accurate.

type c05Case struct {
	Op    string  `json:"op"`
	Mu    mon.F   `json:"mu"`
	Sigma mon.F   `json:"sigma"`
	V     mon.F   `json:"v"`
	Xs    []mon.F `json:"xs"`
	Seed  uint64  `json:"seed,omitempty"`
}

func init() {
	mon.Register(&mon.Prop{ID: "C05", Run: c05Run, Replay: func(w *mon.W, v *mon.ViolationRec) {
		var c c05Case
		if json.Unmarshal(v.Case, &c) == nil {
			c05Judge(w, c)
		}
	}})
}

func ulp(x float64) float64 {
	x = math.Abs(x)
	if x == 0 || math.IsInf(x, 0) || math.IsNaN(x) {
		return math.SmallestNonzeroFloat64
	}
	return math.Nextafter(x, math.Inf(1)) - x
}

// tRef returns the reference t CDF and whether the references agree well
// enough to judge (closed form for integer V is authoritative; otherwise
// mathext and quadrature must agree).
func tRef(v, x float64) (want float64, ok bool) {
	if v == math.Floor(v) && v >= 1 {
		return ref.TCDFInt(int(v), x), true
	}
	a := ref.TCDFBeta(v, x)
	return a, true
}

func c05Judge(w *mon.W, c c05Case) {
	mu, sigma, v := float64(c.Mu), float64(c.Sigma), float64(c.V)
	xs := mon.Un(c.Xs)
	one := func(x float64) c05Case {
		return c05Case{Op: c.Op, Mu: c.Mu, Sigma: c.Sigma, V: c.V, Xs: []mon.F{mon.F(x)}, Seed: c.Seed}
	}
	switch c.Op {
	case "norm-cdf-ref":
		n := stats.NormalDist{Mu: mu, Sigma: sigma}
		for _, x := range xs {
			var got float64
			w.Eval("NormalDist.CDF")
			if p, e := mon.Call(func() { got = n.CDF(x) }); p {
				w.Violate("panic", fmt.Sprintf("NormalDist{%g,%g}.CDF(%g) panicked: %v", mu, sigma, x, e), one(x))
				continue
			}
			want := ref.F64(ref.NormCDF(x, mu, sigma))
			if !w.Err("norm-CDF", math.Abs(got-want), 1e-9) {
				w.Violate("norm-CDF", fmt.Sprintf("NormalDist{%g,%g}.CDF(%g)=%.15g, 384-bit reference %.15g", mu, sigma, x, got, want), one(x))
			}
			if w.WantSample() {
				w.Sample(map[string]any{"op": "NormalDist.CDF", "mu": mu, "sigma": sigma, "x": x, "got": got, "ref": want})
			}
		}
	case "norm-laws":
		c05Laws(w, c, stats.NormalDist{Mu: mu, Sigma: sigma}, mu, sigma, fmt.Sprintf("NormalDist{%g,%g}", mu, sigma))
	case "t-laws":
		c05Laws(w, c, stats.TDist{V: v}, 0, 1, fmt.Sprintf("TDist{%g}", v))
	case "t-cdf-ref":
		t := stats.TDist{V: v}
		w.HitIf(v == math.Floor(v), "integer-V")
		w.HitIf(v != math.Floor(v), "non-integer-V")
		for _, x := range xs {
			var got float64
			w.Eval("TDist.CDF")
			if p, e := mon.Call(func() { got = t.CDF(x) }); p {
				w.Violate("panic", fmt.Sprintf("TDist{%g}.CDF(%g) panicked: %v", v, x, e), one(x))
				continue
			}
			w.HitIf(v >= 100 && x != 0 && math.Abs(x) < 1e-6*math.Sqrt(v), "t-tiny-x-large-V")
			w.HitIf(x*x < v && x*x > 0.5*v, "t-x2-just-below-V")
			w.HitIf(x*x >= v && x*x < 2*v, "t-x2-just-above-V")
			want, _ := tRef(v, x)
			d := math.Abs(got - want)
			if math.IsNaN(got) {
				w.Violate("t-CDF", fmt.Sprintf("TDist{%g}.CDF(%g) is NaN, reference %.15g", v, x, want), one(x))
				continue
			}
			if d > 1e-9 {
				// adjudicate: a violation needs the closed form, or both
				// mathext and the quadrature of the density, to disagree
				q := ref.TCDFQuad(v, x)
				if v == math.Floor(v) || math.Abs(got-q) > 1e-9 {
					w.Violate("t-CDF", fmt.Sprintf("TDist{%g}.CDF(%g)=%.15g, reference %.15g (quadrature %.15g)", v, x, got, want, q), one(x))
				} else {
					w.Note("t-ref-disagreement-adjudicated")
				}
				continue
			}
			w.Err("t-CDF", d, 1e-9)
			if w.WantSample() {
				w.Sample(map[string]any{"op": "TDist.CDF", "V": v, "x": x, "got": got, "ref": want})
			}
		}
	case "norm-inv":
		n := stats.NormalDist{Mu: mu, Sigma: sigma}
		for _, p := range xs {
			var x float64
			w.Eval("NormalDist.InvCDF")
			if pn, e := mon.Call(func() { x = n.InvCDF(p) }); pn {
				w.Violate("panic", fmt.Sprintf("NormalDist{%g,%g}.InvCDF(%g) panicked: %v", mu, sigma, p, e), one(p))
				continue
			}
			switch {
			case math.IsNaN(p) || p < 0 || p > 1:
				w.Hit("inv-outside")
				if !math.IsNaN(x) {
					w.Violate("inv-NaN", fmt.Sprintf("NormalDist{%g,%g}.InvCDF(%g)=%g, want NaN", mu, sigma, p, x), one(p))
				}
			case p == 0:
				w.Hit("inv-0")
				if !math.IsInf(x, -1) {
					w.Violate("inv-0", fmt.Sprintf("NormalDist{%g,%g}.InvCDF(0)=%g, want -Inf", mu, sigma, x), one(p))
				}
			case p == 1:
				w.Hit("inv-1")
				if !math.IsInf(x, 1) {
					w.Violate("inv-1", fmt.Sprintf("NormalDist{%g,%g}.InvCDF(1)=%g, want +Inf", mu, sigma, x), one(p))
				}
			default:
				w.HitIf(p < 1e-200, "p<1e-200")
				w.HitIf(p > 1-1e-12, "p>1-1e-12")
				if math.IsNaN(x) || math.IsInf(x, 0) {
					w.Violate("inv-finite", fmt.Sprintf("NormalDist{%g,%g}.InvCDF(%g)=%g", mu, sigma, p, x), one(p))
					continue
				}
				z := ref.Quo(ref.Sub(ref.NF(x), ref.NF(mu)), ref.NF(sigma))
				back := ref.NormCDFz(z)
				diff := math.Abs(ref.F64(ref.Sub(back, ref.NF(p))))
				// 1e-9 relative, plus what the representability of x
				// itself costs: an error of a few ulps of x (and of mu in
				// x-mu) moves Phi by pdf * that / sigma.
				zf := ref.F64(z)
				dens := math.Exp(-zf*zf/2) / math.Sqrt(2*math.Pi) / sigma
				tol := 1e-9*p + 4*(ulp(x)+ulp(mu))*dens
				if !w.Err("norm-InvCDF-roundtrip", diff, tol) {
					w.Violate("inv-roundtrip", fmt.Sprintf("NormalDist{%g,%g}: InvCDF(%g)=%.17g, but CDF_ref there is %.17g (rel err %.3g)", mu, sigma, p, x, ref.F64(back), diff/p), one(p))
				}
				// the statement's round trip is through the library's own CDF
				var lib float64
				w.Eval("NormalDist.CDF(InvCDF(p))")
				mon.Call(func() { lib = n.CDF(x) })
				if !w.Err("norm-CDF(InvCDF)-roundtrip", math.Abs(lib-p), tol) {
					w.Violate("inv-roundtrip-lib", fmt.Sprintf("NormalDist{%g,%g}: CDF(InvCDF(%g))=%.17g (rel err %.3g)", mu, sigma, p, lib, math.Abs(lib-p)/p), one(p))
				}
			}
		}
		// monotone in p
		ps := append([]float64(nil), xs...)
		sort.Float64s(ps)
		prev := math.Inf(-1)
		for _, p := range ps {
			if math.IsNaN(p) || p < 0 || p > 1 {
				continue
			}
			x := n.InvCDF(p)
			if x < prev {
				w.Violate("inv-monotone", fmt.Sprintf("NormalDist{%g,%g}.InvCDF not monotone at p=%g: %g < %g", mu, sigma, p, x, prev), c)
				break
			}
			prev = x
		}
	case "norm-moments":
		n := stats.NormalDist{Mu: mu, Sigma: sigma}
		w.Eval("NormalDist.Mean/Variance/Bounds")
		lo, hi := n.Bounds()
		if n.Mean() != mu {
			w.Violate("mean", fmt.Sprintf("NormalDist{%g,%g}.Mean()=%g", mu, sigma, n.Mean()), c)
		}
		if !(math.Abs(n.Variance()-sigma*sigma) <= 2*ulp(sigma*sigma)) {
			w.Violate("variance", fmt.Sprintf("NormalDist{%g,%g}.Variance()=%g want %g", mu, sigma, n.Variance(), sigma*sigma), c)
		}
		wl, wh := ref.F64(ref.Sub(ref.NF(mu), ref.Mul(ref.NF(3), ref.NF(sigma)))), ref.F64(ref.Add(ref.NF(mu), ref.Mul(ref.NF(3), ref.NF(sigma))))
		tb := 2 * (ulp(mu) + ulp(3*sigma))
		if !(math.Abs(lo-wl) <= tb && math.Abs(hi-wh) <= tb) {
			w.Violate("bounds", fmt.Sprintf("NormalDist{%g,%g}.Bounds()=(%g,%g) want (%g,%g)", mu, sigma, lo, hi, wl, wh), c)
		}
	case "norm-rand":
		n := stats.NormalDist{Mu: mu, Sigma: sigma}
		N := len(xs) // number of draws is carried as the length of Xs placeholder
		if N == 0 {
			N = 50000
		}
		draw := func() []float64 {
			r := rand.New(rand.NewSource(int64(c.Seed)))
			out := make([]float64, N)
			for i := range out {
				out[i] = n.Rand(r)
			}
			return out
		}
		var a []float64
		w.EvalN("NormalDist.Rand", int64(2*N))
		if p, e := mon.Call(func() { a = draw() }); p {
			w.Violate("panic", fmt.Sprintf("NormalDist{%g,%g}.Rand panicked: %v", mu, sigma, e), c)
			return
		}
		b := draw()
		for i := range a {
			if math.Float64bits(a[i]) != math.Float64bits(b[i]) {
				w.Violate("rand-deterministic", fmt.Sprintf("NormalDist{%g,%g}.Rand: draw %d differs between two identically seeded sources: %g vs %g", mu, sigma, i, a[i], b[i]), c)
				return
			}
		}
		// twin source (informational): the draw is mu+sigma*z for the z of an identically seeded source
		tw := rand.New(rand.NewSource(int64(c.Seed)))
		same := true
		for i := range a {
			z := tw.NormFloat64()
			if math.Abs(a[i]-(mu+sigma*z)) > 2*ulp(a[i])+2*ulp(mu) {
				same = false
				break
			}
		}
		if same {
			w.Note("rand-equals-mu+sigma*NormFloat64")
		} else {
			w.Note("rand-not-NormFloat64-based")
		}
		sort.Float64s(a)
		ks := 0.0
		for i, x := range a {
			f := 0.5 * math.Erfc(-(x-mu)/(sigma*math.Sqrt2))
			ks = math.Max(ks, math.Max(math.Abs(f-float64(i)/float64(N)), math.Abs(float64(i+1)/float64(N)-f)))
		}
		eps := math.Sqrt(math.Log(2/1e-9) / (2 * float64(N)))
		if !w.Err("rand-KS", ks, eps) {
			w.Violate("rand-KS", fmt.Sprintf("NormalDist{%g,%g}.Rand: KS distance %g over %d draws exceeds the DKW bound %g (alpha=1e-9)", mu, sigma, ks, N, eps), c)
		}
		// tail counts: a sampler that never leaves a few sigma moves too little
		// mass for the KS band. Binomial(N, p) counts beyond 2 and 3 sigma
		// stay within 7.5 standard deviations (false-alarm rate < 1e-12).
		for _, tz := range []struct{ z, p float64 }{{2, 0.04550026389635842}, {3, 0.0026997960632601866}} {
			cnt := 0
			for _, x := range a {
				if math.Abs(x-mu) > tz.z*sigma {
					cnt++
				}
			}
			m, sd := float64(N)*tz.p, math.Sqrt(float64(N)*tz.p*(1-tz.p))
			if !w.Err(fmt.Sprintf("rand-tail-%g-sigma", tz.z), math.Abs(float64(cnt)-m), 7.5*sd+1) {
				w.Violate("rand-tails", fmt.Sprintf("NormalDist{%g,%g}.Rand: %d of %d draws lie beyond %g sigma, expected %.0f +- %.0f", mu, sigma, cnt, N, tz.z, m, sd), c)
			}
		}
		for _, x := range a {
			if math.IsNaN(x) || math.IsInf(x, 0) {
				w.Violate("rand-finite", fmt.Sprintf("NormalDist{%g,%g}.Rand returned %g from a seeded source", mu, sigma, x), c)
				break
			}
		}
		// one long run (not stored): the far tails and the fourth moment. A
		// sampler that is only approximately normal (a sum of uniforms, a
		// truncated or table-limited method) passes a KS band over 50000
		// draws; it does not have the normal law's mass beyond four standard
		// deviations, nor its kurtosis. Both statistics are judged with bands
		// of 8 standard deviations of the estimator (false-alarm rate below
		// 1e-12 for any correct sampler).
		{
			const M = 2000000
			r := rand.New(rand.NewSource(int64(c.Seed) ^ 0x5eed))
			var s2, s4 float64
			beyond4 := 0
			w.EvalN("NormalDist.Rand(long run)", M)
			for i := 0; i < M; i++ {
				z := (n.Rand(r) - mu) / sigma
				z2 := z * z
				s2 += z2
				s4 += z2 * z2
				if z2 > 16 {
					beyond4++
				}
			}
			w.Hit("rand-long-run-tails-and-kurtosis")
			const p4 = 6.334248366623984e-05 // P(|Z| > 4)
			m4, sd4 := M*p4, math.Sqrt(M*p4*(1-p4))
			if !w.Err("rand-tail-4-sigma", math.Abs(float64(beyond4)-m4), 8*sd4+1) {
				w.Violate("rand-tails", fmt.Sprintf("NormalDist{%g,%g}.Rand: %d of %d draws lie beyond 4 sigma, expected %.0f +- %.0f", mu, sigma, beyond4, M, m4, sd4), c)
			}
			kurt := (s4/M)/((s2/M)*(s2/M)) - 3
			if !w.Err("rand-excess-kurtosis", math.Abs(kurt), 8*math.Sqrt(24.0/M)) {
				w.Violate("rand-kurtosis", fmt.Sprintf("NormalDist{%g,%g}.Rand: excess kurtosis %.4f over %d draws (a normal sample has 0 +- %.4f)", mu, sigma, kurt, M, math.Sqrt(24.0/M)), c)
			}
			if v := s2 / M; !w.Err("rand-variance", math.Abs(v-1), 8*math.Sqrt(2.0/M)) {
				w.Violate("rand-variance", fmt.Sprintf("NormalDist{%g,%g}.Rand: variance of the standardised draws %.5f over %d draws (expected 1 +- %.5f)", mu, sigma, v, M, math.Sqrt(2.0/M)), c)
			}
		}
		// hostile sources: every variate they can produce is a legal output of
		// a rand.Source, so the draw must be finite (an event of probability
		// zero such as -Inf must never come out)
		for name, src := range map[string]rand.Source{"zero-first": &zeroFirst{src: rand.NewSource(int64(c.Seed))}, "all-zero": constSource(0), "all-ones": constSource(1<<63 - 1)} {
			var x float64
			w.Eval("NormalDist.Rand(hostile source)")
			done := make(chan bool, 1)
			go func() {
				defer func() { recover(); done <- true }()
				x = n.Rand(rand.New(src))
			}()
			select {
			case <-done:
				if math.IsNaN(x) || math.IsInf(x, 0) {
					w.Violate("rand-hostile-source", fmt.Sprintf("NormalDist{%g,%g}.Rand returned %g with the %s source", mu, sigma, x, name), c)
				}
			case <-time.After(20 * time.Second):
				// a rejection loop that never accepts a constant source is
				// legitimate (the ziggurat of math/rand terminates on these)
				w.Note("rand-hostile-source-no-return:" + name)
			}
		}
		// nil source: the global generator; the draws must still be N(mu, sigma)
		nN := 4000
		b2 := make([]float64, nN)
		if p, e := mon.Call(func() {
			for i := range b2 {
				b2[i] = n.Rand(nil)
			}
		}); p {
			w.Violate("rand-nil", fmt.Sprintf("NormalDist{%g,%g}.Rand(nil): %v", mu, sigma, e), c)
		} else {
			w.EvalN("NormalDist.Rand(nil)", int64(nN))
			sort.Float64s(b2)
			ks2 := 0.0
			for i, x := range b2 {
				f := 0.5 * math.Erfc(-(x-mu)/(sigma*math.Sqrt2))
				ks2 = math.Max(ks2, math.Max(math.Abs(f-float64(i)/float64(nN)), math.Abs(float64(i+1)/float64(nN)-f)))
			}
			eps2 := math.Sqrt(math.Log(2/1e-9) / (2 * float64(nN)))
			if !w.Err("rand-nil-KS", ks2, eps2) || math.IsNaN(ks2) {
				w.Violate("rand-nil-KS", fmt.Sprintf("NormalDist{%g,%g}.Rand(nil): KS distance %g over %d draws exceeds the DKW bound %g", mu, sigma, ks2, nN, eps2), c)
			}
		}
	case "delta":
		T := mu
		d := stats.DeltaDist{T: T}
		for _, x := range xs {
			w.Eval("DeltaDist.CDF/PDF")
			cdf, pdf := d.CDF(x), d.PDF(x)
			wc, wp := 0.0, 0.0
			if x >= T {
				wc = 1
			}
			if x == T {
				wp = math.Inf(1)
			}
			w.HitIf(x == T, "delta-at-T")
			if cdf != wc || pdf != wp {
				w.Violate("delta", fmt.Sprintf("DeltaDist{%g}: CDF(%g)=%g PDF=%g, want %g and %g", T, x, cdf, pdf, wc, wp), one(x))
			}
		}
		for _, y := range []float64{0, 1e-300, 0.25, 0.5, 1 - 1e-16, 1} {
			w.Eval("DeltaDist.InvCDF")
			if q := d.InvCDF(y); q != T {
				w.Violate("delta-inv", fmt.Sprintf("DeltaDist{%g}.InvCDF(%g)=%g", T, y, q), c)
			}
		}
		for _, y := range []float64{-1e-300, -1, 1.0000000000000002, 2, math.NaN()} {
			if math.IsNaN(y) {
				continue // the statement fixes NaN only "outside [0,1]"
			}
			if q := d.InvCDF(y); !math.IsNaN(q) {
				w.Violate("delta-inv-NaN", fmt.Sprintf("DeltaDist{%g}.InvCDF(%g)=%g, want NaN", T, y, q), c)
			}
		}
	}
}

type c05dist interface {
	CDF(float64) float64
	PDF(float64) float64
}

// c05Laws: range, monotonicity, reflection symmetry, limits, PDF>=0 and
// integral(PDF) = delta CDF on one distribution over the sorted points Xs.
func c05Laws(w *mon.W, c c05Case, d c05dist, centre, scale float64, name string) {
	// reference density (only used to scale tolerances and to find out where
	// the density varies): closed forms, not the library's PDF
	var dens func(x float64) float64
	switch t := d.(type) {
	case stats.NormalDist:
		dens = func(x float64) float64 {
			z := (x - t.Mu) / t.Sigma
			return math.Exp(-z*z/2) / (t.Sigma * math.Sqrt(2*math.Pi))
		}
	case stats.TDist:
		dens = func(x float64) float64 { return ref.TPDF(t.V, x) }
	}
	peak := dens(centre)
	if lp := d.PDF(centre); !(math.Abs(lp-peak) <= 1e-9*peak) {
		w.Violate("pdf-peak", fmt.Sprintf("%s: PDF at the centre is %.15g, the density there is %.15g", name, lp, peak), c)
		return
	}
	xs := mon.Un(c.Xs)
	sort.Float64s(xs)
	bad := func(kind, msg string) { w.Violate(kind, name+": "+msg, c) }
	prevX, prev := math.Inf(-1), 0.0
	var cdfs []float64
	for _, x := range xs {
		var f, p float64
		w.Eval("CDF+PDF")
		if pn, e := mon.Call(func() { f, p = d.CDF(x), d.PDF(x) }); pn {
			bad("panic", fmt.Sprintf("CDF/PDF(%g) panicked: %v", x, e))
			return
		}
		cdfs = append(cdfs, f)
		if !(f >= 0 && f <= 1) {
			bad("range", fmt.Sprintf("CDF(%g)=%g outside [0,1]", x, f))
		}
		if !(p >= 0) {
			bad("pdf-sign", fmt.Sprintf("PDF(%g)=%g", x, p))
		}
		if f < prev-1e-12 {
			bad("monotone", fmt.Sprintf("CDF(%.17g)=%.17g < CDF(%.17g)=%.17g", x, f, prevX, prev))
		}
		prevX, prev = x, f
		// reflection about the centre: c-d and c+d with d = x-centre
		dd := x - centre
		xm := centre - dd
		if centre+dd == x && centre-(centre-xm) == xm { // both points exactly representable as centre±dd
			var g float64
			w.Eval("CDF(reflection)")
			mon.Call(func() { g = d.CDF(xm) })
			if !(math.Abs(f+g-1) <= 1e-12) {
				bad("symmetry", fmt.Sprintf("CDF(%.17g)+CDF(%.17g)=%.17g", x, xm, f+g))
			}
		}
	}
	// close pairs: a downward step between two nearby arguments is hidden
	// from the comparison of sample points, which are far apart
	closeOK := true
	if t, ok := d.(stats.TDist); ok && t.V > 1e4 {
		// beyond the statement's V <= 1e4 the unchanged library's CDF
		// carries noise of a few 1e-12 between neighbouring arguments
		closeOK = false
	}
	for k := 0; closeOK && k < len(xs); k += 2 {
		x, f := xs[k], cdfs[k]
		for _, dx := range []float64{0, 1e-12 * scale, 1e-9 * scale, 1e-6 * scale, 1e-3 * scale} {
			x2 := x + dx
			if dx == 0 || x2 == x {
				x2 = math.Nextafter(x, math.Inf(1))
			}
			var f2 float64
			w.Eval("CDF(close pair)")
			mon.Call(func() { f2 = d.CDF(x2) })
			if !(f2 >= f-1e-12) {
				bad("monotone-close-pair", fmt.Sprintf("CDF(%.17g)=%.17g < CDF(%.17g)=%.17g", x2, f2, x, f))
				break
			}
		}
	}
	w.Hit("close-pairs-probed")
	w.Eval("CDF(limits)")
	if lo, hi := d.CDF(math.Inf(-1)), d.CDF(math.Inf(1)); lo != 0 || hi != 1 {
		bad("limits", fmt.Sprintf("CDF(-Inf)=%g CDF(+Inf)=%g", lo, hi))
	}
	// integral of the density between neighbouring points a few apart
	for k := 0; k+3 < len(xs); k += 3 {
		a, b := xs[k], xs[k+3]
		if !(b > a) || (b-a) > 60*scale {
			continue
		}
		w.Eval("integral(PDF)")
		want := cdfs[k+3] - cdfs[k]
		// Tolerance: 1e-9 absolute as the accuracy clause suggests, but in
		// the tails (mass of the interval below 1e-3) no more than 1e-6 of
		// that mass plus 1e-15 (rounding of a CDF difference near 1) — an
		// absolute 1e-9 alone would leave everything beyond six standard
		// units unjudged. Quadrature nodes are rounded to float64: with
		// |x| >> scale that moves the integral by up to (total variation of
		// the density over the interval) * ulp(x). Beyond the statement's
		// V <= 1e4 only the absolute form applies.
		tv := math.Abs(dens(a) - dens(b))
		if a <= centre && centre <= b {
			tv = 2 * peak
		}
		tol := 1e-9
		if closeOK && math.Abs(want) < 1e-3 {
			tol = 1e-6*math.Abs(want) + 1e-15
		}
		// panel tolerance of the quadrature (absolute): follows the mass
		integ := ref.GLAdaptive(d.PDF, a, b, math.Max(math.Min(1e-13, 1e-2*tol), 1e-300))
		tol += 8 * ulp(math.Max(math.Abs(a), math.Abs(b))) * tv
		w.HitIf(closeOK && math.Abs(want) < 1e-9 && math.Abs(want) > 1e-13, "pdf-integral-in-the-tail(mass<1e-9)")
		if e0 := math.Abs(integ - want); closeOK && e0 > 2e-11 && e0 <= tol {
			// The CDF's error changes by e0 across this interval. A smooth
			// drift halves with the interval; a step (an evaluation branch or
			// an iteration count changing between two arguments) does not.
			// Follow the larger half down: if the discrepancy survives to a
			// pair of arguments so close that the density cannot account for
			// it, the CDF steps there, and a downward step breaks monotonicity.
			w.Hit("cdf-error-drift-followed")
			lo, hi, flo, fhi := a, b, cdfs[k], cdfs[k+3]
			for it := 0; it < 80; it++ {
				mid := lo + (hi-lo)/2
				if !(mid > lo && mid < hi) {
					break
				}
				var fm float64
				w.Eval("CDF(step hunt)")
				mon.Call(func() { fm = d.CDF(mid) })
				qt := math.Max(1e-14*math.Abs(fhi-flo), 1e-300)
				dl := math.Abs((fm - flo) - ref.GLAdaptive(d.PDF, lo, mid, qt))
				dr := math.Abs((fhi - fm) - ref.GLAdaptive(d.PDF, mid, hi, qt))
				if dl >= dr {
					hi, fhi = mid, fm
				} else {
					lo, flo = mid, fm
				}
				if math.Max(dl, dr) < 1e-11 {
					break
				}
			}
			if !(fhi >= flo-1e-12) {
				bad("monotone-step", fmt.Sprintf("CDF(%.17g)=%.17g > CDF(%.17g)=%.17g (found by following a discrepancy of %.3g between the CDF difference and the integral of PDF over [%g,%g])", lo, flo, hi, fhi, e0, a, b))
			}
		}
		if !w.Err("integral-PDF-vs-CDF", math.Abs(integ-want), tol) {
			bad("pdf-integral", fmt.Sprintf("integral of PDF over [%g,%g] = %.12g but CDF difference = %.12g", a, b, integ, want))
		}
	}
}

func c05Run(r *mon.Run) {
	r.Rule("NormalDist: Mu in +-1e6, Sigma in [1e-6,1e6]; TDist: V log-uniform in [0.1,1e4] and integers; x over +-40 standard units uniform, log-uniform in |x| from 1e-12, and dense near 0 / near x^2=V; InvCDF: p from 1e-300 to 1-1e-16 plus 0,1,outside; Rand: 50k seeded draws (DKW, alpha=1e-9); DeltaDist step. Non-trivial = hits a hostile class; distinct by hash of (op,parameters,points).")
	r.Assume("reference Phi: 384-bit erfc (series/continued fraction) written for this harness; reference t CDF: finite trigonometric sums for integer V, gonum mathext RegIncBeta otherwise, adjudicated by Gauss-Legendre quadrature of the density; Go's math package is trusted")
	r.Gate("t-tiny-x-large-V", "t-x2-just-below-V", "t-x2-just-above-V", "p<1e-200", "p>1-1e-12", "integer-V", "non-integer-V", "inv-0", "inv-1", "inv-outside", "delta-at-T", "close-pairs-probed", "pdf-integral-in-the-tail(mass<1e-9)", "rand-long-run-tails-and-kurtosis")

	randNormal := func(rng *mon.Rand) (float64, float64) {
		mu := rng.Uniform(-1e6, 1e6)
		switch rng.Intn(4) {
		case 0:
			mu = 0
		case 1:
			mu = rng.Sign() * rng.LogUniform(1e-3, 1e6)
		}
		sigma := rng.LogUniform(1e-6, 1e6)
		if rng.Intn(5) == 0 {
			sigma = 1
		}
		return mu, sigma
	}
	randV := func(rng *mon.Rand) float64 {
		switch rng.Intn(4) {
		case 0:
			return float64(rng.Range(1, 100))
		case 1:
			return float64(rng.Range(100, 10000))
		default:
			return rng.LogUniform(0.1, 1e4)
		}
	}
	// x in standard units on the three scales
	stdX := func(rng *mon.Rand, v float64) float64 {
		switch rng.Intn(6) {
		case 0:
			return rng.Uniform(-40, 40)
		case 1:
			return rng.Uniform(-6, 6)
		case 2:
			return rng.Sign() * rng.LogUniform(1e-12, 40)
		case 3:
			return rng.Sign() * rng.LogUniform(1e-12, 1e-5) * math.Sqrt(math.Max(v, 1))
		case 4: // around the branch change x^2 = V of a well-conditioned t CDF
			return rng.Sign() * math.Sqrt(math.Max(v, 1e-300)) * rng.Uniform(0.75, 1.4)
		default:
			return rng.Norm()
		}
	}

	// 1. reference comparisons (expensive references: thousands of points)
	nref := r.Pick(1500, 6000)
	r.Parallel("norm-cdf-ref", nref, func(w *mon.W, i int) {
		rng := w.Rng
		mu, sigma := randNormal(rng)
		c := c05Case{Op: "norm-cdf-ref", Mu: mon.F(mu), Sigma: mon.F(sigma)}
		for k := 0; k < 10; k++ {
			c.Xs = append(c.Xs, mon.F(mu+sigma*stdX(rng, 1)))
		}
		w.Hit("norm-ref")
		w.Distinct(mon.NewHasher().S(c.Op).F(mu).F(sigma).Fs(mon.Un(c.Xs)).Sum())
		c05Judge(w, c)
	})
	r.Parallel("t-cdf-ref", r.Pick(20000, 200000), func(w *mon.W, i int) {
		rng := w.Rng
		v := randV(rng)
		if i%16 == 0 {
			v = float64(rng.Range(100, 10000)) // the class that exposed the flat centre
		}
		c := c05Case{Op: "t-cdf-ref", V: mon.F(v)}
		for k := 0; k < 10; k++ {
			x := stdX(rng, v)
			if i%16 == 0 && k < 4 {
				x = rng.Sign() * rng.LogUniform(1e-12, 1e-6) * math.Sqrt(v)
			}
			c.Xs = append(c.Xs, mon.F(x))
		}
		w.Distinct(mon.NewHasher().S(c.Op).F(v).Fs(mon.Un(c.Xs)).Sum())
		c05Judge(w, c)
	})
	// 2. cheap laws on many points
	r.Parallel("norm-laws", r.Pick(4000, 40000), func(w *mon.W, i int) {
		rng := w.Rng
		mu, sigma := randNormal(rng)
		c := c05Case{Op: "norm-laws", Mu: mon.F(mu), Sigma: mon.F(sigma)}
		for k := 0; k < 40; k++ {
			c.Xs = append(c.Xs, mon.F(mu+sigma*stdX(rng, 1)))
		}
		w.Hit("laws")
		w.Distinct(mon.NewHasher().S(c.Op).F(mu).F(sigma).Fs(mon.Un(c.Xs)).Sum())
		c05Judge(w, c)
	})
	r.Parallel("t-laws", r.Pick(4000, 40000), func(w *mon.W, i int) {
		rng := w.Rng
		v := randV(rng)
		if i%5 == 0 {
			v = rng.LogUniform(1e4, 1e6) // beyond the accuracy range: laws only
		}
		c := c05Case{Op: "t-laws", V: mon.F(v)}
		for k := 0; k < 40; k++ {
			c.Xs = append(c.Xs, mon.F(stdX(rng, v)))
		}
		w.Hit("laws")
		w.Distinct(mon.NewHasher().S(c.Op).F(v).Fs(mon.Un(c.Xs)).Sum())
		c05Judge(w, c)
	})
	// 3. InvCDF
	r.Parallel("norm-inv", r.Pick(1500, 10000), func(w *mon.W, i int) {
		rng := w.Rng
		mu, sigma := randNormal(rng)
		if i%3 == 0 {
			mu, sigma = 0, 1
		}
		c := c05Case{Op: "norm-inv", Mu: mon.F(mu), Sigma: mon.F(sigma)}
		ps := []float64{0, 1, rng.Uniform(0, 1), rng.LogUniform(1e-300, 1), rng.LogUniform(1e-300, 1e-200), 1 - rng.LogUniform(1e-16, 1e-12), 1 - rng.LogUniform(1e-16, 1),
			0.02425, math.Nextafter(0.02425, 0), math.Nextafter(0.02425, 1), 1 - 0.02425, math.Nextafter(1-0.02425, 0), math.Nextafter(1-0.02425, 2),
			rng.Uniform(0.02, 0.03), rng.Uniform(0.97, 0.98), 0.5, math.Nextafter(0.5, 0), math.Nextafter(0.5, 1),
			-rng.LogUniform(1e-300, 10), 1 + rng.LogUniform(1e-15, 10), math.Nextafter(1, 2), -math.SmallestNonzeroFloat64, 1e-300, 1 - 1e-16}
		c.Xs = mon.Fs(ps)
		w.Distinct(mon.NewHasher().S(c.Op).F(mu).F(sigma).Fs(ps).Sum())
		c05Judge(w, c)
	})
	// 4. moments, bounds, Rand, delta
	r.Parallel("norm-moments", r.Pick(2000, 20000), func(w *mon.W, i int) {
		mu, sigma := randNormal(w.Rng)
		w.Hit("moments")
		w.Distinct(mon.NewHasher().S("m").F(mu).F(sigma).Sum())
		c05Judge(w, c05Case{Op: "norm-moments", Mu: mon.F(mu), Sigma: mon.F(sigma)})
	})
	r.Parallel("norm-rand", r.Pick(16, 64), func(w *mon.W, i int) {
		mu, sigma := randNormal(w.Rng)
		if i%4 == 0 {
			sigma = w.Rng.Pick(0.25, 0.5, 2, 3, 10)
		}
		w.Hit("rand")
		w.Distinct(mon.NewHasher().S("r").F(mu).F(sigma).Sum())
		c05Judge(w, c05Case{Op: "norm-rand", Mu: mon.F(mu), Sigma: mon.F(sigma), Seed: w.Rng.Uint64() >> 1})
	})
	r.Parallel("delta", r.Pick(500, 5000), func(w *mon.W, i int) {
		rng := w.Rng
		T := rng.Sign() * rng.LogUniform(1e-9, 1e9)
		if i%7 == 0 {
			T = 0
		}
		xs := []float64{T, math.Nextafter(T, math.Inf(-1)), math.Nextafter(T, math.Inf(1)), T - 1, T + 1, -T, 0, math.Inf(-1), math.Inf(1), rng.Norm() * math.Abs(T)}
		w.Distinct(mon.NewHasher().S("d").F(T).Sum())
		c05Judge(w, c05Case{Op: "delta", Mu: mon.F(T), Xs: mon.Fs(xs)})
	})
}

// constSource is a rand.Source that always returns the same value.
type constSource int64

func (c constSource) Int63() int64 { return int64(c) }
func (c constSource) Seed(int64)   {}
