package props

import (
	"encoding/json"
	"fmt"
	"math/bits"
	"os"
	"path/filepath"
	"runtime/debug"
	"sort"
	"strconv"
	"sync"
	"sync/atomic"
	"time"

	"github.com/aclements/go-moremath/graph"
	"github.com/aclements/go-moremath/graph/graphalg"

	"verifmon/mon"
	"verifmon/ref"
)

// C19 — IDom, Dom and DomFrontier equal the definitions of dominance on any
// flow graph; none of them panics or fails to terminate.
//
// Oracle (M-ref): dominance decided by deleting each node and re-running
// reachability (ref.DomMask for n<=64, ref.DomLarge above), idom* = the strict
// dominator dominated by all others, DF* by its definition. M-panic around
// every library call. M-step: the library only ever sees a counting BiGraph
// whose methods panic with a sentinel once a polynomial budget is exceeded.
//
// The graph object of a case is built once and never repaired: histories query
// it with several roots in a row, and every answer is judged against the graph
// as the caller built it (a call that damaged the lists shows up in the values
// of the calls that follow: kind history-after-modification). The lists are
// served with exact capacity, as sub-slices of one back-to-back array, or with
// canary cells between them. IDom -> DomFrontier -> Dom run on one slice
// (kind pipeline-Dom when the tree built from it is wrong).
//
// Round 3: on every other case DomFrontier and Dom get a caller-made copy of
// the idom slice (own array, junk in the spare capacity) instead of the slice
// IDom returned; every DomTree is asked twice (ascending IDom/Out/In, then
// descending In/Out/IDom), every answer judged against the inversion of idom*;
// on every fourth case the library sees the graph through c19V (struct value,
// nil for empty lists, fresh copy of a list per call). Depth: bidirectional
// chains up to the 40-node limit and beyond (deterministic family of maximal
// chains, class chain-maximal), paths as long as the graph (dominator tree
// depth 39, and 1000+), heavy multi-edges (multiplicity 50+, in-degree 200+).
// The number of sweeps an iterative dataflow solution of the reference's own
// (ref.DomIter) needs, the depth of the tree idom* and the weight of the
// predecessor lists are recorded as classes.
//
// Round 4 (results must stay valid after later calls): a DomTree is a
// graph.BiGraph, so the slices Out/In hand out are collected for EVERY node
// first (nothing copied) and compared only then, and once more after the
// second round of questions; the library's own PreOrder and PostOrder are run
// over the DomTree (through a recording graph.Graph that copies, at the moment
// of the call, the list the tree reports) and compared with the definitional
// depth-first orders (ref.DFSWalk) of idom*'s inversion in that adjacency
// order; on a sample of cases (mode bit c19Recheck) the slice IDom returned for
// the first root, both frontier results and the tree (its held slices and fresh
// answers) are compared once more after the LAST library call of the case,
// with a full IDom/DomFrontier/Dom round on a second, different graph in
// between (results recycled through pools or shared buffers).

type c19Case struct {
	Out  [][]int `json:"out"`          // successor lists, order and multiplicity as handed to the library
	In   [][]int `json:"in,omitempty"` // predecessor lists (the transpose, in the order handed to the library); nil = ascending
	Root int     `json:"root"`
	// Roots (history): further roots queried one after another, after Root,
	// on one and the same graph object (the lists are not rebuilt in between).
	Roots []int `json:"roots,omitempty"`
	// Layout of the lists the library gets to see: 0 every list with exact
	// capacity; 1 compressed-sparse-row storage, In(i)/Out(i) are 2-index
	// sub-slices of one back-to-back array (their capacity reaches into the
	// following lists); 2 like 1 with a few canary cells after every list.
	Layout int `json:"layout,omitempty"`
	// Mode, bit c19CopyIdom: DomFrontier and Dom get a caller-made copy of the
	// slice IDom returned (len n, spare capacity filled with junk) instead of
	// that very slice. Bit c19ValueGraph: the library sees the graph through
	// a second BiGraph implementation (a struct value holding slices, not a
	// pointer; empty lists are nil; every call of In/Out returns a fresh copy
	// of the list). Bit c19Recheck: what the library returned for the first
	// root (idom slice, frontier lists, tree) is held and compared once more
	// after the last call of the case, a round of calls on a second graph (a
	// hub pointing at every node of a ring, one node more than this graph at
	// least) made in between.
	Mode int `json:"mode,omitempty"`
}

const (
	c19Exact  = 0
	c19CSR    = 1
	c19Slack  = 2
	c19Canary = -0x5ca1ab1e

	c19CopyIdom   = 1
	c19ValueGraph = 2
	c19Recheck    = 4
)

// c19RecheckOf: the recheck bit for every 16th index (no random draw, so the
// random streams of the cases are what they were).
func c19RecheckOf(h uint) int {
	if (h*2654435761+0x51ed)>>11&15 == 0 {
		return c19Recheck
	}
	return 0
}

// c19ModeOf derives a mode from a hash: the idom copy on every other case,
// the value-type graph on every fourth.
func c19ModeOf(h uint) int {
	h = h*2654435761 + 0x9e37
	m := int(h >> 9 & 1)
	if h>>13&3 == 0 {
		m |= c19ValueGraph
	}
	if h>>17&15 == 0 {
		m |= c19Recheck
	}
	return m
}

func c19RandMode(rng *mon.Rand) int {
	m := rng.Intn(2)
	if rng.Intn(4) == 0 {
		m |= c19ValueGraph
	}
	return m
}

func init() {
	mon.Register(&mon.Prop{ID: "C19", Run: c19Run, Replay: func(w *mon.W, v *mon.ViolationRec) {
		var c c19Case
		if json.Unmarshal(v.Case, &c) != nil {
			return
		}
		if !c19WellFormed(c) {
			fmt.Println("C19 replay: case is not a well-formed graph")
			return
		}
		c19Judge(w, c, nil, true)
	}})
}

// ---- the counting graph (M-step) --------------------------------------------

// c19Budget is the sentinel a counting graph panics with.
type c19Budget struct{ Calls, Budget int64 }

type c19G struct {
	out, in       [][]int
	calls, budget int64
}

var _ graph.BiGraph = (*c19G)(nil)

func (g *c19G) tick() {
	g.calls++
	if g.calls > g.budget {
		panic(c19Budget{g.calls, g.budget})
	}
}
func (g *c19G) NumNodes() int   { g.tick(); return len(g.out) }
func (g *c19G) Out(i int) []int { g.tick(); return g.out[i] }
func (g *c19G) In(i int) []int  { g.tick(); return g.in[i] }

// c19V is the second BiGraph implementation: a struct value (holding slices, so
// it is neither a pointer nor comparable), empty lists are nil, and every call
// returns a fresh copy of the list (nothing the library writes into a list
// reaches the graph, and nothing it keeps is shared with it). It counts into
// the same budget.
type c19V struct {
	out, in [][]int
	ctr     *c19G
}

var _ graph.BiGraph = c19V{}

func c19Fresh(l []int) []int {
	if len(l) == 0 {
		return nil
	}
	return append(make([]int, 0, len(l)), l...)
}
func (g c19V) NumNodes() int   { g.ctr.tick(); return len(g.out) }
func (g c19V) Out(i int) []int { g.ctr.tick(); return c19Fresh(g.out[i]) }
func (g c19V) In(i int) []int  { g.ctr.tick(); return c19Fresh(g.in[i]) }

// c19StepBudget: IDom's estimates can only move up the tree, so there are at
// most n(n+1) changes, hence at most n^2+n+2 sweeps of at most n In() calls
// (sound for irreducible graphs too). The budget allows eight times that for
// every kind of call together (a correct rewrite that asks In twice per node,
// calls NumNodes in loop conditions or recomputes IDom inside DomFrontier must
// never trip it), plus a constant. A loop that does not terminate but keeps
// consulting the graph exceeds any such bound at once.
func c19StepBudget(n int) int64 {
	N := int64(n)
	b := 8*(N+1)*(N*N+N+2) + 1024
	// For big graphs the cubic bound is astronomically loose (6e10 calls at
	// n = 2000) and a runaway would not be noticed in any reasonable time.
	// The iterative algorithm needs at most about n sweeps over at most
	// n + m adjacency entries even on irreducible graphs, and every faster
	// algorithm needs less: 4096 calls per node is far beyond what any
	// plausible implementation makes on the structured graphs of the
	// large-ids class (depth-limited, a handful of sweeps) and still small
	// enough to trip within a second.
	if lin := 4096 * (N + 64); b > lin {
		b = lin
	}
	return b
}

// ---- reference view -----------------------------------------------------------

type c19Want struct {
	reach       []bool
	idom        []int
	df          [][]int // ascending
	irreducible bool
}

// c19Scratch holds per-worker buffers.
type c19Scratch struct {
	dm      ref.DomMask
	want    c19Want
	dfFlat  []int
	g       c19G
	libFlat []int
	libOut  [][]int
	libIn   [][]int
	idomArg []int
	idomCp  []int
	tmp     []int
	// children of every node in the tree idom* (ascending), back to back
	kidsFlat, kidsStart []int
	it                  ref.DomIter
	depth, cnt          []int
	// enumeration buffers
	eFlat     []int
	eOut, eIn [][]int
	slot      *c19Slot
	// round 4: the slices a DomTree handed out (as handed out, nothing copied),
	// the recording graph the traversals run over, the definitional walk, what
	// is held of the first root's results until the end of the case, and the
	// second graph
	tOuts, tIns      [][]int
	tIdoms           []int
	rec              c19Rec
	walk             ref.DFSWalk
	walkFn           func(int) []int
	held             c19Held
	holdCp, holdArg  []int
	g2               c19G
	g2Flat           []int
	g2Out, g2In      [][]int
	preWant, postGot []int
}

// c19Rec is the graph.Graph the library's traversals see a DomTree through: it
// passes every question on to the tree and returns the tree's own slice, and
// copies, at the moment of the call, the list the tree reports (the adjacency
// order that traversal was given). A node asked again whose list then reads
// differently makes the adjacency order ambiguous (unstable).
type c19Rec struct {
	t        *graphalg.DomTree
	flat     []int
	start    []int // -1: not asked
	ln       []int
	unstable bool
}

var _ graph.Graph = (*c19Rec)(nil)

func (r *c19Rec) reset(t *graphalg.DomTree, n int) {
	r.t, r.unstable = t, false
	if cap(r.start) < n {
		r.start, r.ln = make([]int, n), make([]int, n)
	}
	r.start, r.ln, r.flat = r.start[:n], r.ln[:n], r.flat[:0]
	for i := range r.start {
		r.start[i] = -1
	}
}
func (r *c19Rec) NumNodes() int { return r.t.NumNodes() }
func (r *c19Rec) Out(v int) []int {
	l := r.t.Out(v)
	if v >= 0 && v < len(r.start) {
		if r.start[v] < 0 {
			r.start[v], r.ln[v] = len(r.flat), len(l)
			r.flat = append(r.flat, l...)
		} else if !eqIntsC19(r.flat[r.start[v]:r.start[v]+r.ln[v]], l) {
			r.unstable = true
		}
	}
	return l
}

// walkList is the adjacency list the definitional walk uses for v: what the
// tree told the library's traversal about v, and the children of v in idom*
// for a node the traversal never asked about.
func (sc *c19Scratch) walkList(v int) []int {
	if l, asked := sc.rec.list(v); asked {
		return l
	}
	return sc.kidsFlat[sc.kidsStart[v]:sc.kidsStart[v+1]]
}

// list is what the traversal was told about v (nil, false if it never asked).
func (r *c19Rec) list(v int) ([]int, bool) {
	if r.start[v] < 0 {
		return nil, false
	}
	return r.flat[r.start[v] : r.start[v]+r.ln[v]], true
}

func eqIntsC19(a, b []int) bool {
	if len(a) != len(b) {
		return false
	}
	for i := range a {
		if a[i] != b[i] {
			return false
		}
	}
	return true
}

// c19Held is what a case keeps of the results for its first root until after
// its last library call: the very slices the library returned (never copied)
// next to private copies of the reference values they were judged against.
type c19Held struct {
	on       bool
	root     int
	carve    bool
	wantIdom []int
	reach    []bool
	wantDF   [][]int
	dfFlat   []int
	idom     []int      // the slice IDom returned (nil: not held, it was wrong or never returned)
	df       [2][][]int // what DomFrontier(idom) and DomFrontier(nil) returned (nil: not held)
	tree     *graphalg.DomTree
	what     string
	outs     [][]int // the slices the tree handed out in the first round of questions
	ins      [][]int
}

func (h *c19Held) start(want *c19Want, root int, carve bool) {
	n := len(want.idom)
	h.on, h.root, h.carve = true, root, carve
	h.idom, h.df[0], h.df[1], h.tree = nil, nil, nil, nil
	h.wantIdom = append(h.wantIdom[:0], want.idom...)
	h.reach = append(h.reach[:0], want.reach...)
	if cap(h.wantDF) < n {
		h.wantDF = make([][]int, n)
	}
	h.wantDF = h.wantDF[:n]
	h.dfFlat = h.dfFlat[:0]
	tot := 0
	for _, l := range want.df {
		tot += len(l)
	}
	if cap(h.dfFlat) < tot {
		h.dfFlat = make([]int, 0, tot)
	}
	for v, l := range want.df {
		a := len(h.dfFlat)
		h.dfFlat = append(h.dfFlat, l...)
		h.wantDF[v] = h.dfFlat[a:len(h.dfFlat):len(h.dfFlat)]
	}
}

// dfCompare compares the frontier lists df with the definition's (as sets; the
// root's membership is left out when carve): the first reachable node whose set
// differs, or -1; short says that df has no entry for that node.
func (sc *c19Scratch) dfCompare(w *mon.W, df, wantDF [][]int, reach []bool, root int, carve, note bool) (x int, short bool) {
	for x := range wantDF {
		if !reach[x] {
			continue // entries of unreachable nodes are not claimed
		}
		if x >= len(df) {
			return x, true
		}
		got, dup := sc.sortedSet(df[x])
		if dup && note {
			w.Note("frontier-list-with-duplicates(not judged)")
		}
		wl := wantDF[x]
		i, j := 0, 0
		for i < len(got) || j < len(wl) {
			if carve && i < len(got) && got[i] == root {
				i++
				continue
			}
			if carve && j < len(wl) && wl[j] == root {
				j++
				continue
			}
			if i >= len(got) || j >= len(wl) || got[i] != wl[j] {
				return x, false
			}
			i++
			j++
		}
	}
	return -1, false
}

// secondGraph builds the graph of the in-between round: a hub (node k) that
// points at every node of the ring 0->1->...->k-1->0. Every ring node has the
// hub and its ring predecessor as predecessors, so the hub is the immediate
// dominator of every ring node (idom = k everywhere, -1 for the hub), the
// frontier of ring node v is {(v+1) mod k} (v dominates only itself; for k = 1
// the self-loop makes it {0}) and the frontier of the hub is empty.
func (sc *c19Scratch) secondGraph(k int) {
	n2 := k + 1
	if cap(sc.g2Flat) < 4*k {
		sc.g2Flat = make([]int, 4*k)
	}
	if cap(sc.g2Out) < n2 {
		sc.g2Out, sc.g2In = make([][]int, n2), make([][]int, n2)
	}
	sc.g2Out, sc.g2In = sc.g2Out[:n2], sc.g2In[:n2]
	f := sc.g2Flat[:4*k]
	for v := 0; v < k; v++ {
		f[v] = (v + 1) % k
		sc.g2Out[v] = f[v : v+1 : v+1]
		f[k+v] = v
		f[2*k+2*v], f[2*k+2*v+1] = k, (v+k-1)%k
		if v%2 == 1 {
			f[2*k+2*v], f[2*k+2*v+1] = f[2*k+2*v+1], k
		}
		sc.g2In[v] = f[2*k+2*v : 2*k+2*v+2 : 2*k+2*v+2]
	}
	sc.g2Out[k] = f[k : 2*k : 2*k]
	sc.g2In[k] = f[:0:0]
	sc.g2.out, sc.g2.in = sc.g2Out, sc.g2In
}

var c19Pool = sync.Pool{New: func() any { return &c19Scratch{slot: c19NewSlot()} }}

// ---- hang watchdog (never a verdict) ---------------------------------------------
//
// A loop of the library that stops consulting the graph (e.g. the two-finger
// intersect walking a corrupted idom chain) cannot be bounded in logical
// steps. The design leaves such a hang to the process watchdog of ./check
// (one hour, no case named). This local watchdog only shortens the wait and
// names the in-flight case: if one library call has been in flight for
// c19HangSeconds (default 300 s, i.e. more than 10^6 times the normal
// duration of any call made here) it writes the case to a replay file, prints
// an INCONCLUSIVE line and ends the process with the inconclusive status. It
// never produces a violation and plays no part in any oracle.

type c19Slot struct {
	seq   atomic.Int64 // odd while a library call is in flight
	mu    sync.Mutex
	c     c19Case
	op    string
	class string
	index int
	prop  string
	seed  uint64
	tier  string
	dir   string
}

var c19Slots struct {
	mu   sync.Mutex
	all  []*c19Slot
	once sync.Once
}

func c19NewSlot() *c19Slot {
	s := &c19Slot{}
	c19Slots.mu.Lock()
	c19Slots.all = append(c19Slots.all, s)
	c19Slots.mu.Unlock()
	c19Slots.once.Do(func() { go c19Watchdog() })
	return s
}

func c19Watchdog() {
	limit := 300
	if v, err := strconv.Atoi(os.Getenv("VERIF_C19_HANG_S")); err == nil && v > 0 {
		limit = v
	} else if v, err := strconv.Atoi(os.Getenv("VERIF_HANG_S")); err == nil && v > 0 && v < limit {
		limit = v // the general override of mon's watchdog shortens this one too
	}
	const tick = 2
	type seen struct {
		seq   int64
		ticks int
	}
	last := map[*c19Slot]*seen{}
	for {
		time.Sleep(tick * time.Second)
		c19Slots.mu.Lock()
		slots := append([]*c19Slot(nil), c19Slots.all...)
		c19Slots.mu.Unlock()
		for _, s := range slots {
			q := s.seq.Load()
			l := last[s]
			if l == nil {
				l = &seen{seq: -1}
				last[s] = l
			}
			if q&1 == 0 || q != l.seq {
				l.seq, l.ticks = q, 0
				continue
			}
			l.ticks++
			if l.ticks*tick < limit {
				continue
			}
			s.mu.Lock()
			raw, _ := json.Marshal(s.c)
			rec := mon.ViolationRec{Property: "C19", Class: s.class, Index: s.index, Kind: "hang",
				Msg: s.op + " did not return", Seed: s.seed, Tier: s.tier, Case: raw}
			dir := filepath.Join(s.dir, "replays", "C19")
			os.MkdirAll(dir, 0o755)
			path := filepath.Join(dir, fmt.Sprintf("hang-%s-%d-s%d.json", s.class, s.index, s.seed))
			b, _ := json.MarshalIndent(rec, "", " ")
			os.WriteFile(path, b, 0o644)
			fmt.Printf("INCONCLUSIVE property=C19 %s has been in flight for more than %d s without returning and without calling into the graph (a loop that never consults the graph cannot be bounded in logical steps); in-flight case: %s; case file=%s\n",
				s.op, limit, c19Describe(s.c), path)
			os.Exit(mon.Inconclusive)
		}
	}
}

func (sc *c19Scratch) reference(out [][]int, root int) (*c19Want, error) {
	n := len(out)
	wt := &sc.want
	if n > 64 {
		info, err := ref.DomLarge(out, root)
		if err != nil {
			return nil, err
		}
		wt.reach, wt.idom, wt.df, wt.irreducible = info.Reach, info.IDom, info.DF, info.Irreducible
		return wt, nil
	}
	if err := sc.dm.Compute(out, root); err != nil {
		return nil, err
	}
	d := &sc.dm
	if cap(wt.reach) < n || cap(wt.idom) < n || cap(wt.df) < n {
		wt.reach, wt.idom, wt.df = make([]bool, n), make([]int, n), make([][]int, n)
	}
	wt.reach, wt.idom, wt.df = wt.reach[:n], wt.idom[:n], wt.df[:n]
	sc.dfFlat = sc.dfFlat[:0]
	if cap(sc.dfFlat) < n*n {
		sc.dfFlat = make([]int, 0, n*n)
	}
	for v := 0; v < n; v++ {
		wt.reach[v] = d.Reach>>uint(v)&1 == 1
		wt.idom[v] = d.IDom[v]
		start := len(sc.dfFlat)
		for m := d.DF[v]; m != 0; m &= m - 1 {
			sc.dfFlat = append(sc.dfFlat, bits.TrailingZeros64(m))
		}
		wt.df[v] = sc.dfFlat[start:len(sc.dfFlat):len(sc.dfFlat)]
	}
	wt.irreducible = d.Irreducible
	return wt, nil
}

// libGraph makes the private deep copy that the library gets to see, in one
// backing array. Layout c19Exact: every list has exact capacity. c19CSR: the
// lists lie back to back and are handed out as flat[a:b], as a
// compressed-sparse-row graph does, so that their capacity reaches into the
// lists that follow (an append by the library lands in a neighbouring list of
// the caller's graph). c19Slack: as c19CSR with 1..3 canary cells after every
// list (an append lands in the slack and harms nothing).
func (sc *c19Scratch) libGraph(out, in [][]int, layout int) {
	n := len(out)
	m := 0
	for _, l := range out {
		m += len(l)
	}
	need := 2 * m
	if layout == c19Slack {
		need += 6 * n
	}
	if cap(sc.libFlat) < need {
		sc.libFlat = make([]int, need)
	}
	if cap(sc.libOut) < n {
		sc.libOut, sc.libIn = make([][]int, n), make([][]int, n)
	}
	sc.libOut, sc.libIn = sc.libOut[:n], sc.libIn[:n]
	flat := sc.libFlat[:need]
	pos := 0
	place := func(dst [][]int, src [][]int) {
		for v := 0; v < n; v++ {
			k := copy(flat[pos:], src[v])
			switch layout {
			case c19Exact:
				dst[v] = flat[pos : pos+k : pos+k]
				pos += k
			case c19CSR:
				dst[v] = flat[pos : pos+k]
				pos += k
			default:
				dst[v] = flat[pos : pos+k]
				pos += k
				for s := c19SlackCells(v, k); s > 0; s-- {
					flat[pos] = c19Canary
					pos++
				}
			}
		}
	}
	place(sc.libOut, out)
	place(sc.libIn, in)
	sc.g.out, sc.g.in = sc.libOut, sc.libIn
}

func c19SlackCells(v, k int) int { return 1 + (v+k)%3 }

// canariesIntact says whether the slack cells of layout c19Slack still hold
// their canaries.
func (sc *c19Scratch) canariesIntact() bool {
	for _, ls := range [2][][]int{sc.libOut, sc.libIn} {
		for v, l := range ls {
			full := l[:len(l)+c19SlackCells(v, len(l))]
			for _, x := range full[len(l):] {
				if x != c19Canary {
					return false
				}
			}
		}
	}
	return true
}

func c19SameLists(a, b [][]int) bool {
	if len(a) != len(b) {
		return false
	}
	for i := range a {
		if len(a[i]) != len(b[i]) {
			return false
		}
		for j := range a[i] {
			if a[i][j] != b[i][j] {
				return false
			}
		}
	}
	return true
}

func c19Transpose(out [][]int) [][]int {
	in := make([][]int, len(out))
	for v, l := range out {
		for _, u := range l {
			in[u] = append(in[u], v)
		}
	}
	return in
}

// c19WellFormed validates a (replayed) case: edges in range and In the
// transpose of Out as a multiset.
func c19WellFormed(c c19Case) bool {
	n := len(c.Out)
	if n == 0 || c.Root < 0 || c.Root >= n || c.Layout < c19Exact || c.Layout > c19Slack || c.Mode < 0 || c.Mode > 7 {
		return false
	}
	for _, r := range c.Roots {
		if r < 0 || r >= n {
			return false
		}
	}
	for _, l := range c.Out {
		for _, u := range l {
			if u < 0 || u >= n {
				return false
			}
		}
	}
	if c.In == nil {
		return true
	}
	if len(c.In) != n {
		return false
	}
	t := c19Transpose(c.Out)
	for v := range t {
		a := append([]int(nil), c.In[v]...)
		sort.Ints(a)
		sort.Ints(t[v])
		if len(a) != len(t[v]) {
			return false
		}
		for i := range a {
			if a[i] != t[v][i] {
				return false
			}
		}
	}
	return true
}

func c19Describe(c c19Case) string {
	extra := ""
	if len(c.Roots) > 0 {
		extra = fmt.Sprintf(" then roots %v on the same graph object", c.Roots)
	}
	switch c.Layout {
	case c19CSR:
		extra += " [lists are sub-slices flat[a:b] of one back-to-back array]"
	case c19Slack:
		extra += " [lists are sub-slices flat[a:b] of one array with canary cells between them]"
	}
	if c.Mode&c19ValueGraph != 0 {
		extra += " [graph seen through a value-type BiGraph that returns nil for empty lists and a fresh copy of a list on every call]"
	}
	if c.Mode&c19CopyIdom != 0 {
		extra += " [DomFrontier and Dom get a caller-made copy of the idom slice, with spare capacity]"
	}
	if c.Mode&c19Recheck != 0 {
		extra += " [results for the first root held and compared again after the last call of the case, a round of calls on a second graph in between]"
	}
	if len(c.Out) <= 12 {
		return fmt.Sprintf("out=%v in=%v root=%d%s", c.Out, c.In, c.Root, extra)
	}
	m := 0
	for _, l := range c.Out {
		m += len(l)
	}
	return fmt.Sprintf("graph with %d nodes, %d edges, root=%d%s (see replay file)", len(c.Out), m, c.Root, extra)
}

// sortedSet returns the ascending duplicate-free copy of l (in sc.tmp) and
// whether l had duplicates.
func (sc *c19Scratch) sortedSet(l []int) ([]int, bool) {
	t := append(sc.tmp[:0], l...)
	if len(t) <= 12 {
		for i := 1; i < len(t); i++ {
			for j := i; j > 0 && t[j-1] > t[j]; j-- {
				t[j-1], t[j] = t[j], t[j-1]
			}
		}
	} else {
		sort.Ints(t)
	}
	dup := false
	k := 0
	for i, x := range t {
		if i > 0 && x == t[i-1] {
			dup = true
			continue
		}
		t[k] = x
		k++
	}
	sc.tmp = t
	return t[:k], dup
}

// children inverts idom* into sc.kidsStart/sc.kidsFlat: the children of v, in
// ascending order, are kidsFlat[kidsStart[v]:kidsStart[v+1]].
func (sc *c19Scratch) children(idom []int) {
	n := len(idom)
	if cap(sc.kidsStart) < n+2 {
		sc.kidsStart, sc.kidsFlat = make([]int, n+2), make([]int, n)
	}
	st, flat := sc.kidsStart[:n+2], sc.kidsFlat[:n]
	for i := range st {
		st[i] = 0
	}
	for _, p := range idom {
		if p >= 0 {
			st[p+2]++
		}
	}
	for v := 0; v < n; v++ {
		st[v+2] += st[v+1]
	}
	// st[v+1] is now the start of v's list; filling advances it to the end
	for ch, p := range idom {
		if p >= 0 {
			flat[st[p+1]] = ch
			st[p+1]++
		}
	}
	sc.kidsStart, sc.kidsFlat = st[:n+1], flat
}

// spareCopy returns a copy of idom in a buffer of the caller: length n, and
// behind it 1..4 or n+3 spare cells holding junk (canaries, zeros or -1).
func (sc *c19Scratch) spareCopy(idom []int, root int, into *[]int) []int {
	n := len(idom)
	extra := 1 + (n+root)%4
	if (n+2*root)%3 == 0 {
		extra = n + 3
	}
	if cap(*into) < n+extra {
		*into = make([]int, 2*n+8)
	}
	buf := (*into)[:n+extra]
	copy(buf, idom)
	junk := [3]int{c19Canary, 0, -1}[(n+root)%3]
	for i := n; i < len(buf); i++ {
		buf[i] = junk
	}
	return buf[:n:len(buf)]
}

// domDepth is the depth of the tree idom* (the root has depth 0).
func (sc *c19Scratch) domDepth(want *c19Want) int {
	n := len(want.idom)
	if cap(sc.depth) < n {
		sc.depth = make([]int, n)
	}
	depth := sc.depth[:n]
	for i := range depth {
		depth[i] = -1
	}
	max := 0
	for v := 0; v < n; v++ {
		if !want.reach[v] || depth[v] >= 0 {
			continue
		}
		// walk up to a node of known depth (or the top), then back down
		k, u := 0, v
		for u >= 0 && depth[u] < 0 {
			k++
			u = want.idom[u]
		}
		base := -1
		if u >= 0 {
			base = depth[u]
		}
		for u = v; u >= 0 && depth[u] < 0; u = want.idom[u] {
			depth[u] = base + k
			k--
		}
		if depth[v] > max {
			max = depth[v]
		}
	}
	return max
}

// ---- the judge ---------------------------------------------------------------

// c19Judge runs one case: the graph object is built once (in the case's
// storage layout) and is then queried with the case's root and, for a history
// case, with the further roots, one after another, without ever being rebuilt
// or repaired. Every answer is judged against the reference computed for the
// caller's graph (c.Out, c.In, which the library never sees) and that root.
func c19Judge(w *mon.W, c c19Case, sc *c19Scratch, distinct bool) {
	n := len(c.Out)
	if n == 0 || c.Root < 0 || c.Root >= n {
		return
	}
	if c19TotalViol.Load() > c19GiveUp {
		// the tree is badly broken and the verdict is settled; cases that run
		// into the step budget are slow, so stop adding to the pile
		w.Note("skipped-after-20000-violations")
		return
	}
	if sc == nil {
		sc = c19Pool.Get().(*c19Scratch)
		defer c19Pool.Put(sc)
	}
	in := c.In
	if in == nil {
		in = c19Transpose(c.Out)
		c.In = in
	}

	// ---- classes of the case as a whole (inputs only)
	switch c.Layout {
	case c19CSR:
		w.Hit("layout-csr-shared-capacity")
	case c19Slack:
		w.Hit("layout-slack-canaries")
	default:
		w.Hit("layout-exact-capacity")
	}
	copyIdom, valueGraph, recheck := c.Mode&c19CopyIdom != 0, c.Mode&c19ValueGraph != 0, c.Mode&c19Recheck != 0
	sc.held.on = false
	w.HitIf(recheck, "recheck:first-root's-results-compared-again-after-the-last-call(second-graph-in-between)")
	w.HitIf(copyIdom, "idom-arg:caller-copy-with-spare-capacity")
	w.HitIf(valueGraph, "bigraph:value-type,nil-empty-lists,fresh-copies")
	if len(c.Roots) > 0 {
		w.Hit("history-several-roots")
		for _, r := range c.Roots {
			if r == c.Root {
				w.Hit("history-returns-to-first-root")
				break
			}
		}
	}
	if distinct {
		h := mon.NewHasher().I(n).I(c.Root).I(c.Layout).I(c.Mode).Is(c.Roots)
		for v := 0; v < n; v++ {
			h = h.Is(c.Out[v]).Is(in[v])
		}
		w.Distinct(h.Sum()) // the layout class above has marked the case non-trivial
	}

	// viol records a violation; the (expensive) message is formatted for the
	// first 8 violations of a kind that a worker sees in a class (those are the
	// ones mon keeps); later ones are only counted.
	viol := func(kind string, msg func() string) {
		c19TotalViol.Add(1)
		if c19Verbose(w, kind) {
			w.Violate(kind, msg(), c)
		} else {
			w.Violate(kind, "(message not formatted: this worker has already recorded 8 violations of this kind in this class)", c)
		}
	}

	// ---- the library's view: built once per case
	sc.libGraph(c.Out, in, c.Layout)
	g := &sc.g
	var gi graph.BiGraph = g
	if valueGraph {
		gi = c19V{sc.libOut, sc.libIn, g}
	}
	budget := c19StepBudget(n)
	slot := sc.slot
	slot.mu.Lock()
	slot.c, slot.class, slot.index, slot.seed, slot.tier, slot.dir = c, w.Class, w.Index, w.R.Seed, w.R.Tier, w.R.Dir
	slot.mu.Unlock()
	inflight := func(op string, fn func()) func() {
		return func() {
			slot.mu.Lock()
			slot.op = op
			slot.mu.Unlock()
			slot.seq.Add(1)
			defer slot.seq.Add(1)
			fn()
		}
	}

	// modified: the lists of the graph object differ from the caller's graph
	// because an earlier library call wrote into them. Modifying the lists is
	// not judged here (C20); but nothing is repaired: the caller still holds
	// that one graph object, and what later calls answer for it is judged
	// against the graph as the caller built it.
	modified, modWhat, slackNoted := false, "", false
	// tripped: a call of this case ran into the step budget. Such calls are
	// slow (a recursion hundreds of thousands of frames deep); the case is
	// refuted, so the further roots of a history are not queried any more.
	tripped := false
	curRoot, step := c.Root, 0
	intact := func(op string) {
		if c.Layout == c19Slack && !slackNoted && !sc.canariesIntact() {
			slackNoted = true
			w.Note("library-wrote-into-spare-capacity-of-a-list(not judged)")
		}
		same := c19SameLists(sc.libOut, c.Out) && c19SameLists(sc.libIn, in)
		if !same && !modified {
			w.Note("library-modified-graph-lists")
			modWhat = fmt.Sprintf("%s with root %d changed the caller's graph: %s", op, curRoot, c19ListDiff(sc.libOut, c.Out, sc.libIn, in))
		}
		modified = !same
	}
	// kindOf names a violation: calls made on a graph object that an earlier
	// call has modified are the history-after-modification kind; calls with a
	// later root of a history carry the history- prefix.
	kindOf := func(pre bool, kind string) string {
		if pre {
			return "history-after-modification"
		}
		if step > 0 {
			return "history-" + kind
		}
		return kind
	}
	ctx := func(pre bool) string {
		s := ""
		if step > 0 {
			s = fmt.Sprintf(" [query %d on this graph object, root %d]", step+1, curRoot)
		}
		if pre {
			s += " [" + modWhat + "; judged against the graph as the caller built it]"
		}
		return s
	}
	// call runs one library call under M-panic and M-step.
	call := func(op, stepKey string, fn func()) bool {
		pre := modified
		g.calls, g.budget = 0, budget
		w.Eval(op)
		p, v := mon.Call(inflight(op, fn))
		w.Err(stepKey, float64(g.calls), float64(budget))
		intact(op)
		if !p {
			return true
		}
		if b, ok := v.(c19Budget); ok {
			tripped = true
			// a call that runs into the budget costs about a second (deep
			// recursion, stack growth, stack scanning): such a case weighs 40
			// towards the give-up count, so that a tree whose calls do not
			// terminate is given up after 500 of them
			c19TotalViol.Add(39)
			kind := "nontermination-" + op
			if pre {
				kind = kindOf(pre, kind)
			}
			viol(kind, func() string {
				return fmt.Sprintf("%s made %d calls into the graph, budget %d (n=%d): not terminating%s; %s", op, b.Calls, b.Budget, n, ctx(pre), c19Describe(c))
			})
		} else {
			kind := "panic-" + op
			if pre {
				kind = kindOf(pre, kind)
			}
			viol(kind, func() string { return fmt.Sprintf("%s panicked: %v%s; %s", op, v, ctx(pre), c19Describe(c)) })
		}
		return false
	}

	var reachSeen uint64 // nodes reachable from some earlier root of this case (n <= 64)

	// stale records a result that was right when the library returned it and
	// reads differently after later library calls. Such a tree recycles
	// storage that is still in use: under the 16 workers further calls race
	// with each other (a walk over a half-overwritten idom need not end), the
	// verdict is settled, so each of these weighs 1000 towards the give-up
	// count.
	stale := func(kind string, msg func() string) {
		c19TotalViol.Add(999)
		viol(kind, msg)
	}

	runRoot := func(root int) {
		curRoot = root
		want, err := sc.reference(c.Out, root)
		if err != nil {
			w.R.Inconclusive("reference inconsistent: " + err.Error())
			return
		}

		// ---- classes: inputs and reference-side quantities only
		rootIn := len(in[root])
		switch {
		case rootIn == 0:
			w.Hit("root-in-0")
		case rootIn == 1:
			w.Hit("root-in-1(carve-out)")
		default:
			w.Hit("root-in>=2")
		}
		var unreach, selfLoop, joinUnreach, parJoin, parOnly, highID, dfRoot bool
		maxMult, maxInDeg, maxUnreachPreds := 0, 0, 0
		nReach := 0
		var reachMask uint64
		for y := 0; y < n; y++ {
			if !want.reach[y] {
				unreach = true
				continue
			}
			nReach++
			if y < 64 {
				reachMask |= 1 << uint(y)
			}
			if y >= 1024 {
				highID = true
			}
			preds := in[y]
			dup, other := false, false
			if len(preds) > maxInDeg {
				maxInDeg = len(preds)
			}
			unreachPreds := 0
			for i, p := range preds {
				if p == y {
					selfLoop = true
				}
				if !want.reach[p] && len(preds) >= 2 {
					joinUnreach = true
					unreachPreds++
				}
				if p != preds[0] {
					other = true
				}
				if !dup && len(preds) <= 48 {
					for _, q := range preds[:i] {
						if q == p {
							dup = true
							break
						}
					}
				}
			}
			if unreachPreds > maxUnreachPreds {
				maxUnreachPreds = unreachPreds
			}
			if len(preds) > 48 {
				// long list: multiplicities by counting
				if cap(sc.cnt) < n {
					sc.cnt = make([]int, n)
				}
				cnt := sc.cnt[:n]
				for _, p := range preds {
					cnt[p]++
					if cnt[p] > maxMult {
						maxMult = cnt[p]
					}
					if cnt[p] >= 2 {
						dup = true
					}
				}
				for _, p := range preds {
					cnt[p] = 0
				}
			}
			if dup && other {
				parJoin = true
			}
			if dup && !other {
				parOnly = true
			}
		}
		for x := 0; x < n && !dfRoot; x++ {
			if want.reach[x] {
				for _, y := range want.df[x] {
					if y == root {
						dfRoot = true
					}
				}
			}
		}
		w.HitIf(unreach, "unreachable-nodes")
		w.HitIf(joinUnreach, "join-with-unreachable-pred")
		w.HitIf(selfLoop, "self-loop")
		for _, p := range in[root] {
			if p == root {
				w.Hit("root-self-loop")
				break
			}
		}
		w.HitIf(parJoin, "parallel-edges-into-join")
		w.HitIf(parOnly, "parallel-edges-single-pred")
		w.HitIf(want.irreducible, "irreducible-loop")
		w.HitIf(highID, "reachable-node-id>=1024")
		w.HitIf(dfRoot && rootIn != 1, "root-in-some-frontier")
		w.HitIf(nReach == 1 && n > 1, "only-root-reachable")
		w.HitIf(maxMult >= 50, "edge-multiplicity>=50")
		w.HitIf(maxMult >= 200, "edge-multiplicity>=200")
		w.HitIf(maxInDeg >= 58, "in-degree>=58")
		w.HitIf(maxInDeg >= 200, "in-degree>=200")
		w.HitIf(maxUnreachPreds >= 17, "join-with>=17-unreachable-pred-edges")
		w.HitIf(maxUnreachPreds >= 32, "join-with>=32-unreachable-pred-edges")
		if n >= 6 {
			// how many sweeps the iterative dataflow solution needs, and a
			// fourth opinion on idom*
			it := &sc.it
			if err := it.Run(c.Out, in, root); err != nil {
				w.R.Inconclusive("reference inconsistent: " + err.Error())
				return
			}
			for v := 0; v < n; v++ {
				if it.IDom[v] != want.idom[v] {
					w.R.Inconclusive(fmt.Sprintf("reference inconsistent: idom*[%d] is %d by node deletion and %d by the iterative dataflow solution; %s", v, want.idom[v], it.IDom[v], c19Describe(c)))
					return
				}
			}
			w.HitIf(it.Sweeps >= 8, "dataflow-fixpoint-needs>=8-sweeps")
			w.HitIf(it.Sweeps >= 16, "dataflow-fixpoint-needs>=16-sweeps")
			w.HitIf(it.Sweeps >= 32, "dataflow-fixpoint-needs>=32-sweeps")
			w.HitIf(it.Sweeps >= 38, "dataflow-fixpoint-needs>=38-sweeps")
			w.HitIf(it.Sweeps >= 64, "dataflow-fixpoint-needs>=64-sweeps")
		}
		if n >= 17 {
			d := sc.domDepth(want)
			w.HitIf(d >= 16, "dominator-tree-depth>=16")
			w.HitIf(d >= 31, "dominator-tree-depth>=31")
			w.HitIf(d >= 39, "dominator-tree-depth>=39")
			w.HitIf(d >= 1000, "dominator-tree-depth>=1000")
		}
		sc.children(want.idom)
		// held: the results for the first root of a recheck case are kept until
		// after the last call of the case; the buffers of the caller that a
		// tree may go on referring to are then not reused by later queries
		holdThis := recheck && step == 0
		cpBuf, argBuf := &sc.idomCp, &sc.idomArg
		if holdThis {
			sc.held.start(want, root, rootIn == 1)
			cpBuf, argBuf = &sc.holdCp, &sc.holdArg
		}
		if c.Layout != c19Exact {
			// the cell that follows the root's predecessor list in the shared
			// array: for the back-to-back layout it is the first predecessor of
			// the next node with predecessors
			for v := root + 1; v < n; v++ {
				if len(in[v]) > 0 {
					w.HitIf(len(in[v]) >= 2 && want.reach[v], "shared-array:list-after-root's-in-list-is-a-reachable-join's")
					break
				}
			}
		}
		if step > 0 && n <= 64 {
			w.HitIf(reachMask&^reachSeen != 0, "history-later-root-reaches-nodes-unreachable-before")
		}
		reachSeen |= reachMask

		// ---- IDom
		var idom []int
		idomOK := false
		pre := modified
		if call("IDom", "graph-calls-over-budget/IDom", func() { idom = graphalg.IDom(gi, root) }) {
			bad := 0
			if len(idom) != n {
				bad = 1
				viol(kindOf(pre, "IDom-len"), func() string {
					return fmt.Sprintf("IDom returned %d entries for %d nodes%s; %s", len(idom), n, ctx(pre), c19Describe(c))
				})
			} else {
				first := -1
				for v := 0; v < n; v++ {
					if idom[v] != want.idom[v] {
						if first < 0 {
							first = v
						}
						bad++
					}
				}
				if first >= 0 {
					why := "closest strict dominator by node deletion"
					if first == root {
						why = "the root has none"
					} else if !want.reach[first] {
						why = "node is unreachable from the root"
					}
					viol(kindOf(pre, "IDom"), func() string {
						return fmt.Sprintf("IDom[%d]=%d, want %d (%s); %d entries differ%s; %s", first, idom[first], want.idom[first], why, bad, ctx(pre), c19Describe(c))
					})
				}
			}
			idomOK = bad == 0
			w.Err("IDom-entries-differing", float64(bad), 0.5)
			if holdThis && idomOK {
				sc.held.idom = idom
			}
		}

		// judgeDom calls Dom(arg) and compares the tree with the inversion of
		// idom*. what describes arg for the message. hold: keep the tree (and
		// the slices it handed out) for the recheck at the end of the case.
		judgeDom := func(arg []int, kind, what string, hold bool) {
			var tree *graphalg.DomTree
			w.Eval("Dom")
			if p, v := mon.Call(inflight("Dom", func() { tree = graphalg.Dom(arg) })); p {
				viol("panic-"+kind, func() string {
					return fmt.Sprintf("Dom(%s) panicked: %v; idom*=%v; %s", what, v, c19Short(want.idom), c19Describe(c))
				})
				return
			}
			if tree == nil {
				viol(kind, func() string { return fmt.Sprintf("Dom(%s) returned nil; idom*=%v", what, c19Short(want.idom)) })
				return
			}
			// classes of the tree idom* (reference side): how many nodes have
			// children at all (two child lists alive at a time), and whether a
			// node with several children has a child with children (a top-down
			// walk asks for the inner list while it is half-way through the outer)
			inner, fork := 0, false
			for v := 0; v < n; v++ {
				a, b := sc.kidsStart[v], sc.kidsStart[v+1]
				if b > a {
					inner++
				}
				if b-a >= 2 && !fork {
					for _, ch := range sc.kidsFlat[a:b] {
						if sc.kidsStart[ch+1] > sc.kidsStart[ch] {
							fork = true
							break
						}
					}
				}
			}
			w.HitIf(inner >= 2, "domtree:>=2-nodes-with-children(child-lists-held-across-later-Out-calls)")
			w.HitIf(fork, "domtree:node-with>=2-children-one-of-them-with-children(walk-holds-a-list-across-Out-calls)")

			cmpOut := func(v int, got []int) string {
				kids := sc.kidsFlat[sc.kidsStart[v]:sc.kidsStart[v+1]]
				bad := len(got) != len(kids) // shorter: a child is missing; longer: a stranger or a duplicate
				if !bad && len(got) == 1 {
					bad = got[0] != kids[0]
				} else if !bad && len(got) > 1 {
					set, dup := sc.sortedSet(got)
					bad = dup
					for i := 0; !bad && i < len(set); i++ {
						bad = set[i] != kids[i]
					}
				}
				if bad {
					return fmt.Sprintf("Out(%d)=%v, want the children %v", v, got, kids)
				}
				return ""
			}
			cmpIn := func(v int, gotIn []int) string {
				if want.idom[v] >= 0 {
					if len(gotIn) != 1 || gotIn[0] != want.idom[v] {
						return fmt.Sprintf("In(%d)=%v, want [%d]", v, gotIn, want.idom[v])
					}
				} else if !(len(gotIn) == 0 || (len(gotIn) == 1 && gotIn[0] == -1)) {
					// a node without immediate dominator: no parent, or the -1 marker
					return fmt.Sprintf("In(%d)=%v for a node without immediate dominator", v, gotIn)
				}
				return ""
			}
			msg := ""
			// one query of v: the three accessors in the given order, each answer
			// judged at once against the inversion of idom*
			query := func(v int, rev bool) string {
				for k := 0; k < 3; k++ {
					q := k
					if rev {
						q = 2 - k
					}
					switch q {
					case 0:
						if d := tree.IDom(v); d != want.idom[v] {
							return fmt.Sprintf("IDom(%d)=%d, want %d", v, d, want.idom[v])
						}
					case 1:
						if m := cmpOut(v, tree.Out(v)); m != "" {
							return m
						}
					default:
						if m := cmpIn(v, tree.In(v)); m != "" {
							return m
						}
					}
				}
				return ""
			}
			if cap(sc.tOuts) < n {
				sc.tOuts, sc.tIns, sc.tIdoms = make([][]int, n), make([][]int, n), make([]int, n)
			}
			outs, ins, ids := sc.tOuts[:n], sc.tIns[:n], sc.tIdoms[:n]
			// collected looks at the slices the tree handed out in the first round
			collected := func(when string) bool {
				for v := 0; v < n; v++ {
					m := ""
					if ids[v] != want.idom[v] {
						m = fmt.Sprintf("IDom(%d)=%d, want %d", v, ids[v], want.idom[v])
					} else if m = cmpOut(v, outs[v]); m == "" {
						m = cmpIn(v, ins[v])
					}
					if m != "" {
						msg = when + m
						return false
					}
				}
				return true
			}
			numOK := false
			p, v := mon.Call(func() {
				if nn := tree.NumNodes(); nn != n {
					msg = fmt.Sprintf("NumNodes()=%d, want %d", nn, n)
					return
				}
				numOK = true
				// first round: every node asked (IDom, Out, In, ascending); the
				// slices are kept as they were handed out - nothing is copied -
				// and looked at only after the last of these calls, as any user
				// of a graph.BiGraph may do (the library's own traversals hold
				// the list of one node while they ask for the next)
				for v := 0; v < n; v++ {
					ids[v] = tree.IDom(v)
					outs[v] = tree.Out(v)
					ins[v] = tree.In(v)
				}
				if !collected("every node asked once (IDom, Out, In in ascending order), the slices kept as handed out (nothing copied) and looked at after the last of these calls: ") {
					return
				}
				// the same tree asked a second time, nodes and accessors in the
				// opposite order, every answer looked at at once: the answers
				// must still be the inversion of idom*
				for v := n - 1; v >= 0; v-- {
					if m := query(v, true); m != "" {
						msg = "asked a second time (nodes in descending order, accessors in the order In, Out, IDom), after every node had been asked once: " + m
						return
					}
				}
				// and the slices of the first round must still be
				if !collected("the slices handed out in the first round of questions, looked at again after the second round of questions: ") {
					return
				}
				if nn := tree.NumNodes(); nn != n {
					msg = fmt.Sprintf("NumNodes()=%d when asked a second time, want %d", nn, n)
				}
			})
			w.EvalN("DomTree.IDom/In/Out", int64(6*n))
			w.EvalN("DomTree.NumNodes", 2)
			if p {
				viol("panic-"+kind+"Tree", func() string {
					return fmt.Sprintf("inspecting Dom(%s) panicked: %v; idom*=%v; %s", what, v, c19Short(want.idom), c19Describe(c))
				})
				return
			} else if msg != "" {
				viol(kind, func() string {
					return fmt.Sprintf("Dom(%s): %s; idom*=%v%s; %s", what, msg, c19Short(want.idom), ctx(false), c19Describe(c))
				})
			} else if hold {
				h := &sc.held
				h.tree, h.what = tree, what
				h.outs, h.ins = append(h.outs[:0], outs...), append(h.ins[:0], ins...)
			}
			// Traversals: over every tree in which a node with several children
			// has a child with children (only there does a walk come back to a
			// list it holds after it has asked for another non-empty one), and
			// over every fourth of the others (chains, stars, forests of them).
			if !numOK || !(fork || (n+root+step)%4 == 0) {
				return
			}
			w.Hit("domtree-traversal:PreOrder,PostOrder-over-the-DomTree")
			// the library's own traversals over the tree (a DomTree is a
			// graph.Graph), from the root: the depth-first pre- and post-order
			// of idom*'s inversion, children in the order the tree reported
			// them to that very traversal
			rec := &sc.rec
			for t := 0; t < 2; t++ {
				name, ord := "PreOrder", "pre"
				if t == 1 {
					name, ord = "PostOrder", "post"
				}
				rec.reset(tree, n)
				var got []int
				w.Eval(name + "(DomTree)")
				if p, v := mon.Call(inflight(name+"(DomTree)", func() {
					if t == 0 {
						got = graphalg.PreOrder(rec, root)
					} else {
						got = graphalg.PostOrder(rec, root)
					}
				})); p {
					viol("panic-"+kind+"-traversal", func() string {
						return fmt.Sprintf("%s(Dom(%s), %d) panicked: %v; idom*=%v; %s", name, what, root, v, c19Short(want.idom), c19Describe(c))
					})
					continue
				}
				tmsg := ""
				for v := 0; v < n && tmsg == ""; v++ {
					if l, asked := rec.list(v); asked {
						if m := cmpOut(v, l); m != "" {
							tmsg = "asked by the traversal, the tree reported " + m
						}
					}
				}
				if tmsg == "" && rec.unstable {
					w.Note("domtree-reports-a-node's-children-in-different-orders(traversal order not judged)")
					continue
				}
				if tmsg == "" {
					if sc.walkFn == nil {
						sc.walkFn = sc.walkList
					}
					sc.walk.Run(n, root, sc.walkFn)
					wantOrd := sc.walk.Pre
					if t == 1 {
						wantOrd = sc.walk.Post
					}
					if !eqIntsC19(got, wantOrd) {
						tmsg = fmt.Sprintf("returned %v; the depth-first %s-order of the tree idom* (children in the order in which the tree reported them to this traversal) is %v", c19Short(got), ord, c19Short(wantOrd))
					}
				}
				if tmsg != "" {
					viol(kind+"-traversal", func() string {
						return fmt.Sprintf("%s(Dom(%s), %d): %s; idom*=%v%s; %s", name, what, root, tmsg, c19Short(want.idom), ctx(false), c19Describe(c))
					})
				}
			}
		}

		// ---- DomFrontier with idom given and with idom nil; Dom in between.
		// The pipeline idom := IDom(g, root); DomFrontier(g, root, idom);
		// Dom(idom) runs on ONE slice: the slice the library's IDom returned
		// (when it is right; a copy of idom* otherwise) goes to DomFrontier
		// and, as DomFrontier left it, on to Dom.
		carve := rootIn == 1
		for pass := 0; pass < 2; pass++ {
			op, key := "DomFrontier(idom)", "graph-calls-over-budget/DomFrontier(idom)"
			var arg []int
			pipeline := false
			if pass == 0 {
				switch {
				case idomOK && !copyIdom:
					arg, pipeline = idom, true
					w.Note("pipeline:IDom->DomFrontier->Dom-on-one-slice")
				case idomOK:
					// what a caller does who keeps the result in a buffer of its
					// own: same values, another array, spare capacity behind it
					arg, pipeline = sc.spareCopy(idom, root, cpBuf), true
					w.Note("pipeline:IDom->caller's-copy->DomFrontier->Dom")
					if !eqIntsC19(arg, want.idom) {
						// it was idom* a moment ago and this worker has made no
						// call since: storage recycled while in use
						now := append([]int(nil), arg...)
						stale("IDom-result-changed-by-later-calls", func() string {
							return fmt.Sprintf("the slice IDom(g, %d) returned was idom*=%v when it was returned and read %v when the caller copied it (no call made by this caller in between; other goroutines call IDom on other graphs)%s; %s", root, c19Short(want.idom), c19Short(now), ctx(false), c19Describe(c))
						})
						if holdThis {
							sc.held.idom = nil
						}
						copy(arg, want.idom)
						pipeline = false
					}
				case copyIdom:
					arg = sc.spareCopy(want.idom, root, cpBuf)
				default:
					*argBuf = append((*argBuf)[:0], want.idom...)
					arg = *argBuf
				}
			} else {
				op, key = "DomFrontier(nil)", "graph-calls-over-budget/DomFrontier(nil)"
			}
			var df [][]int
			pre := modified
			ok := call(op, key, func() { df = graphalg.DomFrontier(gi, root, arg) })
			if pass == 0 {
				// the idom argument after the call, and Dom on that very slice
				changed := -1
				for i, x := range arg {
					if x != want.idom[i] {
						changed = i
						break
					}
				}
				src := "idom*"
				if pipeline {
					src = "the slice returned by IDom"
					if copyIdom {
						src = "a caller-made copy (with spare capacity) of the slice returned by IDom"
					}
				}
				if changed < 0 {
					judgeDom(arg, "Dom", src, holdThis)
				} else {
					// not judged by itself; the tree the caller then builds from
					// its slice is
					w.Note("DomFrontier-changed-its-idom-argument")
					at, now := changed, arg[changed]
					judgeDom(arg, "pipeline-Dom", fmt.Sprintf("%s after DomFrontier(g, %d, idom) on it, which left idom[%d]=%d where it was %d", src, root, at, now, want.idom[at]), false)
					*argBuf = append((*argBuf)[:0], want.idom...)
					judgeDom(*argBuf, "Dom", "idom*", holdThis)
				}
			}
			if !ok {
				continue
			}
			bad := 0
			if x, short := sc.dfCompare(w, df, want.df, want.reach, root, carve, true); x >= 0 && short {
				bad = 1
				viol(kindOf(pre, "DomFrontier-len"), func() string {
					return fmt.Sprintf("%s returned %d sets, reachable node %d has none%s; %s", op, len(df), x, ctx(pre), c19Describe(c))
				})
			} else if x >= 0 {
				bad = 1
				note := ""
				if carve {
					note = " (root has exactly one in-edge: its membership is not compared)"
				}
				viol(kindOf(pre, "DomFrontier"), func() string {
					return fmt.Sprintf("%s[%d]=%v, definition gives %v%s; idom*=%v%s; %s", op, x, df[x], want.df[x], note, c19Short(want.idom), ctx(pre), c19Describe(c))
				})
			} else if holdThis {
				sc.held.df[pass] = df
			}
			w.Err("DomFrontier-sets-differing", float64(bad), 0.5)
		}

		if step == 0 && w.WantSample() && n >= 4 && n <= 10 && nReach >= 4 {
			w.Sample(map[string]any{"out": c19Copy(c.Out), "root": root, "idom_ref": append([]int(nil), want.idom...),
				"df_ref": c19Copy(want.df), "irreducible": want.irreducible})
		}
	}

	runRoot(c.Root)
	for _, r := range c.Roots {
		if tripped {
			w.Note("history-cut-short-after-nontermination")
			break
		}
		step++
		runRoot(r)
	}
	if modified {
		// A library call has changed the caller's graph. Query the same graph
		// object with other roots (the nodes whose edges were lost first) and
		// judge the answers against the graph as the caller built it.
		for _, r := range c19OtherRoots(c, sc.libOut, sc.libIn, in) {
			if !modified || tripped || c19TotalViol.Load() > c19GiveUp {
				break
			}
			step++
			w.Note("query-after-modification-with-another-root")
			runRoot(r)
		}
	}

	// ---- recheck: what the library returned for the first root, once more,
	// after the last library call of the case
	h := &sc.held
	if !recheck || !h.on || tripped || c19TotalViol.Load() > c19GiveUp {
		return
	}
	// in between: a full round on a second, different and bigger graph (see
	// secondGraph for its dominators in closed form)
	k := n + c.Root%3
	hub := k
	sc.secondGraph(k)
	g2 := &sc.g2
	budget2 := c19StepBudget(k + 1)
	desc2 := func() string {
		return fmt.Sprintf("second graph of the case: %d nodes, hub %d pointing at every node of the ring 0->1->...->%d->0, root %d; first graph: %s", k+1, hub, k-1, hub, c19Describe(c))
	}
	call2 := func(op string, fn func()) bool {
		g2.calls, g2.budget = 0, budget2
		w.Eval(op)
		p, v := mon.Call(inflight(op, fn))
		if !p {
			return true
		}
		if b, ok := v.(c19Budget); ok {
			tripped = true
			c19TotalViol.Add(39)
			viol("nontermination-second-graph", func() string {
				return fmt.Sprintf("%s made %d calls into the graph, budget %d: not terminating; %s", op, b.Calls, b.Budget, desc2())
			})
		} else {
			viol("panic-second-graph", func() string { return fmt.Sprintf("%s panicked: %v; %s", op, v, desc2()) })
		}
		return false
	}
	df2OK := func(op string, df2 [][]int) {
		for v := 0; v <= k; v++ {
			ok := v < len(df2)
			if ok && v < k {
				set, _ := sc.sortedSet(df2[v])
				ok = len(set) == 1 && set[0] == (v+1)%k
			} else if ok {
				ok = len(df2[v]) == 0
			}
			if !ok {
				viol("second-graph-DomFrontier", func() string {
					if v >= len(df2) {
						return fmt.Sprintf("%s returned %d sets, node %d has none; %s", op, len(df2), v, desc2())
					}
					return fmt.Sprintf("%s[%d]=%v, the definition gives [%d] for a ring node (it dominates only itself, its ring successor has the hub as second predecessor) and [] for the hub; %s", op, v, c19Short(df2[v]), (v+1)%k, desc2())
				})
				return
			}
		}
	}
	var idom2 []int
	if call2("IDom(second graph)", func() { idom2 = graphalg.IDom(g2, hub) }) {
		ok := len(idom2) == k+1
		for v := 0; ok && v <= k; v++ {
			ok = (v < k && idom2[v] == hub) || (v == k && idom2[v] == -1)
		}
		if !ok {
			viol("second-graph-IDom", func() string {
				return fmt.Sprintf("IDom=%v, want %d for every ring node (the hub is its predecessor) and -1 for the hub; %s", c19Short(idom2), hub, desc2())
			})
		} else {
			var df2 [][]int
			if call2("DomFrontier(second graph, idom)", func() { df2 = graphalg.DomFrontier(g2, hub, idom2) }) {
				df2OK("DomFrontier(g2, hub, idom)", df2)
			}
			var tree2 *graphalg.DomTree
			msg2 := ""
			if call2("Dom(second graph)", func() {
				tree2 = graphalg.Dom(idom2)
				if tree2 == nil {
					msg2 = "Dom returned nil"
					return
				}
				kids := tree2.Out(hub)
				set, dup := sc.sortedSet(kids)
				bad := dup || len(set) != k
				for i := 0; !bad && i < k; i++ {
					bad = set[i] != i
				}
				if bad {
					msg2 = fmt.Sprintf("Out(%d)=%v, want every ring node 0..%d", hub, c19Short(kids), k-1)
					return
				}
				for v := 0; v < k; v++ {
					if d, o := tree2.IDom(v), tree2.Out(v); d != hub || len(o) != 0 {
						msg2 = fmt.Sprintf("IDom(%d)=%d, Out(%d)=%v, want %d and no children", v, d, v, c19Short(o), hub)
						return
					}
				}
			}) && msg2 != "" {
				viol("second-graph-Dom", func() string { return "Dom(idom of the second graph): " + msg2 + "; " + desc2() })
			}
			w.EvalN("DomTree.IDom/In/Out", int64(2*k+1))
		}
	}
	var df2 [][]int
	if call2("DomFrontier(second graph, nil)", func() { df2 = graphalg.DomFrontier(g2, hub, nil) }) {
		df2OK("DomFrontier(g2, hub, nil)", df2)
	}
	if tripped {
		return
	}

	after := fmt.Sprintf("after the last library call of the case (%d further root queries on the first graph, then IDom, DomFrontier, Dom, DomFrontier(nil) on a second graph of %d nodes)", step, k+1)
	if h.idom != nil && !eqIntsC19(h.idom, h.wantIdom) {
		stale("IDom-result-changed-by-later-calls", func() string {
			return fmt.Sprintf("the slice IDom(g, %d) returned was idom*=%v when it was returned and reads %v %s; %s", h.root, c19Short(h.wantIdom), c19Short(h.idom), after, c19Describe(c))
		})
	}
	for pass, name := range [2]string{"DomFrontier(g, root, idom)", "DomFrontier(g, root, nil)"} {
		df := h.df[pass]
		if df == nil {
			continue
		}
		if x, short := sc.dfCompare(w, df, h.wantDF, h.reach, h.root, h.carve, false); x >= 0 {
			stale("DomFrontier-result-changed-by-later-calls", func() string {
				now := "is gone"
				if !short {
					now = fmt.Sprintf("reads %v", c19Short(df[x]))
				}
				return fmt.Sprintf("the result of %s with root %d agreed with the definition when it was returned; %s the set of node %d %s, the definition gives %v; idom*=%v; %s", name, h.root, after, x, now, h.wantDF[x], c19Short(h.wantIdom), c19Describe(c))
			})
		}
	}
	if tree := h.tree; tree != nil {
		sc.children(h.wantIdom)
		msg := ""
		look := func(v int, out, in []int, idom int) string {
			kids := sc.kidsFlat[sc.kidsStart[v]:sc.kidsStart[v+1]]
			set, dup := sc.sortedSet(out)
			bad := dup || len(set) != len(kids)
			for i := 0; !bad && i < len(set); i++ {
				bad = set[i] != kids[i]
			}
			if bad {
				return fmt.Sprintf("Out(%d) reads %v, want the children %v", v, c19Short(out), kids)
			}
			if p := h.wantIdom[v]; idom != p {
				return fmt.Sprintf("IDom(%d)=%d, want %d", v, idom, p)
			} else if (p >= 0 && (len(in) != 1 || in[0] != p)) || (p < 0 && !(len(in) == 0 || (len(in) == 1 && in[0] == -1))) {
				return fmt.Sprintf("In(%d) reads %v, parent in idom* is %d", v, in, p)
			}
			return ""
		}
		p, v := mon.Call(func() {
			if nn := tree.NumNodes(); nn != n {
				msg = fmt.Sprintf("NumNodes()=%d, want %d", nn, n)
				return
			}
			for v := 0; v < n; v++ {
				if m := look(v, h.outs[v], h.ins[v], h.wantIdom[v]); m != "" {
					msg = "the slices it handed out when it was first asked: " + m
					return
				}
			}
			for v := 0; v < n; v++ {
				if m := look(v, tree.Out(v), tree.In(v), tree.IDom(v)); m != "" {
					msg = "asked again: " + m
					return
				}
			}
		})
		w.EvalN("DomTree.IDom/In/Out", int64(3*n))
		w.EvalN("DomTree.NumNodes", 1)
		if p {
			viol("panic-DomTree", func() string {
				return fmt.Sprintf("inspecting Dom(%s) %s panicked: %v; idom*=%v; %s", h.what, after, v, c19Short(h.wantIdom), c19Describe(c))
			})
		} else if msg != "" {
			stale("DomTree-changed-by-later-calls", func() string {
				return fmt.Sprintf("Dom(%s) for root %d was the inversion of idom*=%v when it was built and asked (twice); %s: %s; %s", h.what, h.root, c19Short(h.wantIdom), after, msg, c19Describe(c))
			})
		}
	}
}

// c19ListDiff describes the first list of the library's view that differs from
// the caller's graph.
func c19ListDiff(libOut, out, libIn, in [][]int) string {
	for _, t := range []struct {
		name   string
		got, w [][]int
	}{{"In", libIn, in}, {"Out", libOut, out}} {
		for v := range t.w {
			if !c19SameLists(t.got[v:v+1], t.w[v:v+1]) {
				return fmt.Sprintf("%s(%d) was %v, is now %v", t.name, v, t.w[v], t.got[v])
			}
		}
	}
	return "(lists equal)"
}

// c19OtherRoots chooses the roots for the queries that follow a modification
// of the graph's lists: first the nodes that lost an edge (members of an
// original list that are missing from the modified one) and the owners of the
// modified lists, then the other nodes; every node for up to 8 nodes, at most
// 8 roots otherwise. The choice depends on the case and the lists only.
func c19OtherRoots(c c19Case, libOut, libIn, in [][]int) []int {
	n := len(c.Out)
	limit := 8
	seen := map[int]bool{}
	var roots []int
	add := func(r int) {
		if r >= 0 && r < n && !seen[r] && len(roots) < limit {
			seen[r] = true
			roots = append(roots, r)
		}
	}
	lost := func(got, want [][]int) {
		for v := range want {
			if c19SameLists(got[v:v+1], want[v:v+1]) {
				continue
			}
			cnt := map[int]int{}
			for _, x := range got[v] {
				cnt[x]++
			}
			for _, x := range want[v] {
				if cnt[x] > 0 {
					cnt[x]--
				} else {
					add(x)
				}
			}
			add(v)
		}
	}
	lost(libIn, in)
	lost(libOut, c.Out)
	for k := 0; k < n; k++ {
		add((c.Root + 1 + k) % n)
	}
	return roots
}

// c19VCount counts, per worker of a class and kind of violation, how many
// violations have been recorded.
var c19VCount sync.Map // c19VKey -> *atomic.Int64

type c19VKey struct {
	w    *mon.W
	kind string
}

// c19TotalViol counts violations of this process (a call that ran into the
// step budget counts 40); beyond c19GiveUp the remaining workload is skipped
// (only ever reached when the verdict is already "violated").
var c19TotalViol atomic.Int64

const c19GiveUp = 20000

func c19Verbose(w *mon.W, kind string) bool {
	k := c19VKey{w, kind}
	v, ok := c19VCount.Load(k)
	if !ok {
		v, _ = c19VCount.LoadOrStore(k, new(atomic.Int64))
	}
	return v.(*atomic.Int64).Add(1) <= 8
}

func c19Short(xs []int) string {
	if len(xs) <= 48 {
		return fmt.Sprint(xs)
	}
	return fmt.Sprintf("%v…(%d)", xs[:48], len(xs))
}

func c19Copy(a [][]int) [][]int {
	o := make([][]int, len(a))
	for i := range a {
		o[i] = append([]int{}, a[i]...)
	}
	return o
}

// ---- generators ---------------------------------------------------------------

// matrixCase builds the graph of adjacency matrix m (bit i*n+j = edge i->j)
// in the scratch buffers. variant bit 0 reverses every successor list, bit 1
// every predecessor list.
func (sc *c19Scratch) matrixCase(n int, m uint64, root, variant int) c19Case {
	if cap(sc.eFlat) < 2*n*n {
		sc.eFlat = make([]int, 2*n*n)
		sc.eOut, sc.eIn = make([][]int, n), make([][]int, n)
	}
	sc.eOut, sc.eIn = sc.eOut[:n], sc.eIn[:n]
	for v := 0; v < n; v++ {
		sc.eOut[v] = sc.eFlat[v*n : v*n : v*n+n]
		sc.eIn[v] = sc.eFlat[n*n+v*n : n*n+v*n : n*n+v*n+n]
	}
	for i := 0; i < n; i++ {
		for j := 0; j < n; j++ {
			if m>>uint(i*n+j)&1 == 1 {
				sc.eOut[i] = append(sc.eOut[i], j)
				sc.eIn[j] = append(sc.eIn[j], i)
			}
		}
	}
	rev := func(ls [][]int) {
		for _, l := range ls {
			for i, j := 0, len(l)-1; i < j; i, j = i+1, j-1 {
				l[i], l[j] = l[j], l[i]
			}
		}
	}
	if variant&1 != 0 {
		rev(sc.eOut)
	}
	if variant&2 != 0 {
		rev(sc.eIn)
	}
	return c19Case{Out: sc.eOut, In: sc.eIn, Root: root}
}

// c19B is a little multigraph builder.
type c19B struct{ out [][]int }

func (b *c19B) node() int {
	b.out = append(b.out, []int{})
	return len(b.out) - 1
}
func (b *c19B) nodes(k int) {
	for i := 0; i < k; i++ {
		b.node()
	}
}
func (b *c19B) edge(u, v int) { b.out[u] = append(b.out[u], v) }
func (b *c19B) n() int        { return len(b.out) }
func (b *c19B) edges() (es [][2]int) {
	for u, l := range b.out {
		for _, v := range l {
			es = append(es, [2]int{u, v})
		}
	}
	return
}

// decorate adds the hostile features: an unreachable region feeding the main
// part, parallel edges, self-loops, a chosen in-degree of the root.
func (b *c19B) decorate(rng *mon.Rand, root int, maxExtra int) {
	main := b.n()
	if maxExtra > 0 && rng.Intn(2) == 0 {
		// unreachable region: nothing in the main part points into it
		k := rng.Range(1, maxExtra)
		first := b.n()
		b.nodes(k)
		for u := first; u < first+k; u++ {
			for e := rng.Range(1, 3); e > 0; e-- {
				b.edge(u, rng.Intn(main))
			}
			if rng.Intn(2) == 0 {
				b.edge(u, first+rng.Intn(k))
			}
		}
		if rng.Intn(3) == 0 {
			b.edge(first, root)
		}
	}
	if rng.Intn(2) == 0 {
		es := b.edges()
		if len(es) > 0 {
			for k := rng.Range(1, 1+len(es)/4); k > 0; k-- {
				e := es[rng.Intn(len(es))]
				b.edge(e[0], e[1])
			}
		}
	}
	if rng.Intn(3) == 0 {
		for k := rng.Range(1, 3); k > 0; k-- {
			v := rng.Intn(main)
			b.edge(v, v)
		}
	}
	switch rng.Intn(6) {
	case 0: // root without in-edges
		for u := range b.out {
			l := b.out[u][:0]
			for _, v := range b.out[u] {
				if v != root {
					l = append(l, v)
				}
			}
			b.out[u] = l
		}
	case 1:
		b.edge(rng.Intn(main), root)
	case 2:
		b.edge(rng.Intn(main), root)
		b.edge(rng.Intn(main), root)
	case 3:
		b.edge(root, root)
	}
}

// finish renumbers the nodes by a random permutation and shuffles every list.
func (b *c19B) finish(rng *mon.Rand, root int, permute bool) c19Case {
	n := b.n()
	perm := make([]int, n)
	for i := range perm {
		perm[i] = i
	}
	if permute {
		perm = rng.Perm(n)
	}
	out := make([][]int, n)
	for u, l := range b.out {
		nl := make([]int, len(l))
		for i, v := range l {
			nl[i] = perm[v]
		}
		out[perm[u]] = nl
	}
	for _, l := range out {
		rng.ShuffleI(l)
	}
	in := c19Transpose(out)
	if rng.Intn(4) != 0 {
		for _, l := range in {
			rng.ShuffleI(l)
		}
	}
	for v := range in {
		if in[v] == nil {
			in[v] = []int{}
		}
	}
	return c19Case{Out: out, In: in, Root: perm[root]}
}

// genDensity: G(n,p) from tree-like to complete.
func c19GenDensity(rng *mon.Rand, i int) (c19Case, string) {
	n := rng.Range(2, 36)
	b := &c19B{}
	b.nodes(n)
	root := rng.Intn(n)
	label := ""
	switch mode := i % 10; mode {
	case 0: // tree-like: a random tree hanging off the root plus a few chords
		label = "density-tree-like"
		order := rng.Perm(n)
		for k := range order {
			if order[k] == root {
				order[0], order[k] = order[k], order[0]
				break
			}
		}
		for k := 1; k < n; k++ {
			b.edge(order[rng.Intn(k)], order[k])
		}
		for e := rng.Intn(4); e > 0; e-- {
			b.edge(rng.Intn(n), rng.Intn(n))
		}
	case 1: // complete
		label = "density-complete"
		loops := rng.Bool()
		for u := 0; u < n; u++ {
			for v := 0; v < n; v++ {
				if u != v || loops {
					b.edge(u, v)
				}
			}
		}
	default:
		ps := []float64{0.5 / float64(n), 1 / float64(n), 1.5 / float64(n), 2 / float64(n), 3 / float64(n), 0.1, 0.25, 0.5, 0.9}
		p := ps[rng.Intn(len(ps))]
		label = "density-sparse"
		if p >= 0.25 {
			label = "density-dense"
		}
		loops := rng.Intn(3) == 0
		for u := 0; u < n; u++ {
			for v := 0; v < n; v++ {
				if (u != v || loops) && rng.Float64() < p {
					b.edge(u, v)
				}
			}
		}
	}
	b.decorate(rng, root, 4)
	return b.finish(rng, root, true), label
}

// region builds a structured (reducible) region and returns its entry and
// exit nodes.
func (b *c19B) region(rng *mon.Rand, budget *int, depth int) (int, int) {
	*budget--
	kind := rng.Intn(9)
	if *budget <= 2 || depth > 6 {
		kind = 0
	}
	switch kind {
	default: // basic block (sometimes with a self-loop)
		e := b.node()
		if rng.Intn(8) == 0 {
			b.edge(e, e)
		}
		return e, e
	case 1, 2: // sequence
		a1, b1 := b.region(rng, budget, depth+1)
		a2, b2 := b.region(rng, budget, depth+1)
		b.edge(b1, a2)
		return a1, b2
	case 3: // if-then-else
		c := b.node()
		t1, t2 := b.region(rng, budget, depth+1)
		e1, e2 := b.region(rng, budget, depth+1)
		j := b.node()
		*budget -= 2
		b.edge(c, t1)
		b.edge(c, e1)
		b.edge(t2, j)
		b.edge(e2, j)
		return c, j
	case 4: // if-then
		c := b.node()
		t1, t2 := b.region(rng, budget, depth+1)
		j := b.node()
		*budget -= 2
		b.edge(c, t1)
		b.edge(c, j)
		b.edge(t2, j)
		return c, j
	case 5: // while
		h := b.node()
		b1, b2 := b.region(rng, budget, depth+1)
		x := b.node()
		*budget -= 2
		b.edge(h, b1)
		b.edge(b2, h)
		b.edge(h, x)
		return h, x
	case 6: // do-while
		b1, b2 := b.region(rng, budget, depth+1)
		c := b.node()
		x := b.node()
		*budget -= 2
		b.edge(b2, c)
		b.edge(c, b1)
		b.edge(c, x)
		return b1, x
	case 7: // while with a break and a continue out of the body
		h := b.node()
		lo := b.n()
		b1, b2 := b.region(rng, budget, depth+1)
		hi := b.n()
		x := b.node()
		*budget -= 2
		b.edge(h, b1)
		b.edge(b2, h)
		b.edge(h, x)
		b.edge(lo+rng.Intn(hi-lo), x)
		if rng.Bool() {
			b.edge(lo+rng.Intn(hi-lo), h)
		}
		return h, x
	case 8: // switch with three arms
		c := b.node()
		j := b.node()
		*budget -= 2
		for k := 0; k < 3; k++ {
			a1, a2 := b.region(rng, budget, depth+1)
			b.edge(c, a1)
			b.edge(a2, j)
		}
		return c, j
	}
}

func c19GenStructured(rng *mon.Rand, i int) (c19Case, string) {
	b := &c19B{}
	budget := rng.Range(3, 30)
	root, _ := b.region(rng, &budget, 0)
	for b.n() > 36 { // keep within the 40-node space: rebuild smaller
		b = &c19B{}
		budget = rng.Range(3, 12)
		root, _ = b.region(rng, &budget, 0)
	}
	if i%3 != 0 {
		// keep a share of the graphs purely structured
		b.decorate(rng, root, 4)
	}
	return b.finish(rng, root, true), "structured"
}

// genIrreducible plants two-entry cycles s->a, s->b, a<->b.
func c19GenIrreducible(rng *mon.Rand, i int) (c19Case, string) {
	b := &c19B{}
	root := 0
	if i%4 == 3 {
		return c19GenChain(rng, 40, false), "two-entry-bidirectional-chain"
	}
	if i%2 == 0 {
		budget := rng.Range(3, 24)
		root, _ = b.region(rng, &budget, 0)
		for b.n() > 34 {
			b = &c19B{}
			budget = rng.Range(3, 12)
			root, _ = b.region(rng, &budget, 0)
		}
	} else {
		n := rng.Range(3, 30)
		b.nodes(n)
		root = rng.Intn(n)
		p := rng.Pick(1, 1.5, 2, 3) / float64(n)
		for u := 0; u < n; u++ {
			for v := 0; v < n; v++ {
				if u != v && rng.Float64() < p {
					b.edge(u, v)
				}
			}
		}
		// make the root reach something
		b.edge(root, rng.Intn(n))
	}
	n := b.n()
	for k := rng.Range(1, 3); k > 0 && n >= 3; k-- {
		s := rng.Intn(n)
		if rng.Intn(3) == 0 {
			s = root
		}
		a, c := rng.Intn(n), rng.Intn(n)
		if a == c || a == s || c == s {
			continue
		}
		b.edge(s, a)
		b.edge(s, c)
		b.edge(a, c)
		b.edge(c, a)
		if rng.Intn(3) == 0 && n >= 4 {
			// a three-node cycle with two entries
			d := rng.Intn(n)
			b.edge(c, d)
			b.edge(d, a)
		}
	}
	if rng.Intn(2) == 0 {
		b.decorate(rng, root, 4)
	}
	return b.finish(rng, root, true), "planted-two-entry-cycle"
}

// c19GenChain: a chain c1<->c2<->...<->ck entered from both ends (directly
// from the root or through an intermediate node at either end): every ci is
// immediately dominated by the entry, and a sweep-based algorithm learns that
// for one more node per sweep (about k sweeps). The whole graph has at most
// limit nodes; deep makes the chain (nearly) as long as that allows.
func c19GenChain(rng *mon.Rand, limit int, deep bool) c19Case {
	b := &c19B{}
	viaA, viaZ := rng.Bool(), rng.Bool()
	exits := rng.Intn(3)
	deco := rng.Intn(3) == 0
	kmax := limit - 1 - exits
	if viaA {
		kmax--
	}
	if viaZ {
		kmax--
	}
	if deco {
		kmax -= 3 // decorate adds up to 3 unreachable nodes
	}
	k := rng.Range(3, kmax)
	if deep {
		k = kmax - rng.Intn(6)
	}
	root := b.node()
	a, z := root, root
	if viaA {
		a = b.node()
		b.edge(root, a)
	}
	if viaZ {
		z = b.node()
		b.edge(root, z)
	}
	first := b.n()
	b.nodes(k)
	for j := 0; j+1 < k; j++ {
		b.edge(first+j, first+j+1)
		b.edge(first+j+1, first+j)
	}
	if rng.Bool() {
		b.edge(a, first)
		b.edge(z, first+k-1)
	} else { // the far end first in the successor list of a shared entry
		b.edge(z, first+k-1)
		b.edge(a, first)
	}
	for e := exits; e > 0; e-- {
		x := b.node()
		b.edge(first+rng.Intn(k), x)
	}
	if deco {
		b.decorate(rng, root, 3)
	}
	return b.finish(rng, root, rng.Bool())
}

// c19MaxChainSizes are the graph sizes of the deterministic chain family: the
// sizes around the quantifier limit of 40 nodes, and some beyond.
var c19MaxChainSizes = []int{33, 34, 35, 36, 37, 38, 39, 40, 64, 65, 100, 200}

const c19MaxChainVariants = 2 * 3 * 2 * 2 * 2 // far-first x root position x numbering x intermediates x list order

// c19MaxChain builds case i of the deterministic family of maximal chains: a
// graph of exactly size nodes that is nothing but the root, the chain and
// (variant) one intermediate node at either end. The variants: which end comes
// first in the root's successor list; the root numbered first, in the middle
// or last; the chain numbered away from or towards the first entry; entered
// directly or through intermediates; every list in ascending or descending
// order.
func c19MaxChain(i int) c19Case {
	size := c19MaxChainSizes[i/c19MaxChainVariants%len(c19MaxChainSizes)]
	v := i % c19MaxChainVariants
	farFirst := v&1 != 0
	v >>= 1
	rootPos := v % 3
	v /= 3
	descending := v&1 != 0
	v >>= 1
	via := v&1 != 0
	v >>= 1
	revLists := v&1 != 0

	k := size - 1
	if via {
		k -= 2
	}
	// ids in numbering order: [a] chain [z], the root inserted at rootPos
	seq := make([]int, 0, size) // logical node at each id; logical: 0 root, 1 a, 2 z, 3.. chain
	if via {
		seq = append(seq, 1)
	}
	for j := 0; j < k; j++ {
		if descending {
			seq = append(seq, 3+k-1-j)
		} else {
			seq = append(seq, 3+j)
		}
	}
	if via {
		seq = append(seq, 2)
	}
	at := [3]int{0, len(seq) / 2, len(seq)}[rootPos]
	seq = append(seq, 0)
	copy(seq[at+1:], seq[at:])
	seq[at] = 0
	id := make([]int, 3+k)
	for pos, l := range seq {
		id[l] = pos
	}
	out := make([][]int, size)
	for v := range out {
		out[v] = []int{}
	}
	edge := func(u, v int) { out[id[u]] = append(out[id[u]], id[v]) }
	a, z := 0, 0
	if via {
		a, z = 1, 2
	}
	first, last := 3, 3+k-1
	if via && farFirst {
		edge(0, z)
		edge(0, a)
	} else if via {
		edge(0, a)
		edge(0, z)
	}
	if farFirst {
		edge(z, last)
		edge(a, first)
	} else {
		edge(a, first)
		edge(z, last)
	}
	for j := first; j <= last; j++ {
		if j < last {
			edge(j, j+1)
		}
		if j > first {
			edge(j, j-1)
		}
	}
	in := c19Transpose(out)
	for v := range in {
		if in[v] == nil {
			in[v] = []int{}
		}
	}
	if revLists {
		for _, ls := range [2][][]int{out[:], in} {
			for v, l := range ls {
				if v == id[0] {
					continue // the root's successor order is the farFirst variant
				}
				for p, q := 0, len(l)-1; p < q; p, q = p+1, q-1 {
					l[p], l[q] = l[q], l[p]
				}
			}
		}
	}
	return c19Case{Out: out, In: in, Root: id[0], Layout: i % 3, Mode: c19ModeOf(uint(i))}
}

// c19GenLongPath: a path root -> 1 -> 2 -> ... (so that the dominator tree is
// as deep as the graph is big) with backward edges, self-loops, parallel
// edges, sometimes a few short forward chords and an unreachable region
// feeding the path. size 0: at most 40 nodes in all, otherwise a path of that
// many nodes plus the unreachable region.
func c19GenLongPath(rng *mon.Rand, i, size int) (c19Case, string) {
	b := &c19B{}
	u := 0
	if rng.Intn(3) == 0 {
		u = rng.Range(1, 4)
	}
	L, label := size, "long-path-large"
	if size == 0 {
		label = "long-path"
		L = 40 - u
		if i%2 == 1 {
			L = rng.Range(20, 40-u)
		}
	} else if u > 0 {
		u = rng.Range(5, 30)
	}
	b.nodes(L)
	for v := 0; v+1 < L; v++ {
		b.edge(v, v+1)
		if rng.Intn(16) == 0 { // parallel path edge
			for e := rng.Range(1, 3); e > 0; e-- {
				b.edge(v, v+1)
			}
		}
	}
	span := L
	if size > 0 {
		span = 40 // keep most back edges of a big path local: frontier sets stay small
	}
	nb := rng.Intn(L)
	if size > 0 {
		nb = rng.Range(L/8, L/3)
	}
	if i%5 == 0 {
		nb = 0 // the bare path
	}
	for e := nb; e > 0; e-- {
		from := rng.Range(1, L-1)
		lo := from - span
		if lo < 0 || (size > 0 && rng.Intn(64) == 0) {
			lo = 0
		}
		b.edge(from, rng.Range(lo, from)) // backward or self
	}
	if i%5 != 0 && rng.Intn(4) == 0 { // a few short forward chords (the tree gets a little shallower)
		for e := rng.Range(1, 3); e > 0; e-- {
			if from := rng.Intn(L); from+2 < L {
				b.edge(from, from+2+rng.Intn(c19Min(3, L-from-2)))
			}
		}
	}
	if u > 0 {
		first := b.n()
		b.nodes(u)
		for x := first; x < first+u; x++ {
			for e := rng.Range(1, 3); e > 0; e-- {
				b.edge(x, rng.Intn(L))
			}
			if rng.Bool() {
				b.edge(x, first+rng.Intn(u))
			}
		}
	}
	return b.finish(rng, 0, rng.Bool()), label
}

func c19Min(a, b int) int {
	if a < b {
		return a
	}
	return b
}

// c19GenHeavy: small graphs with very heavy multi-edges (one edge repeated
// 50..300 times, a join whose predecessor list has 200..700 entries, an
// unreachable node pointing at a reachable join dozens of times), and, on
// every 16th case, a join with 200..330 distinct predecessors.
func c19GenHeavy(rng *mon.Rand, i int) (c19Case, string) {
	b := &c19B{}
	root := b.node()
	if i%16 == 5 {
		mids := rng.Range(1, 4)
		b.nodes(mids)
		for m := 1; m <= mids; m++ {
			b.edge(root, m)
		}
		join := b.node()
		fan := rng.Range(200, 330)
		for f := 0; f < fan; f++ {
			x := b.node()
			b.edge(rng.Intn(1+mids), x)
			b.edge(x, join)
			if rng.Intn(8) == 0 && x > join+1 {
				b.edge(x, rng.Range(join+1, x)) // among the fan (forward, backward or self)
			}
		}
		t := b.node()
		b.edge(join, t)
		switch rng.Intn(3) {
		case 0:
			b.edge(t, root)
		case 1:
			b.edge(t, root)
			b.edge(join, root)
		}
		for x := rng.Intn(40); x > 0; x-- { // unreachable predecessors of the join
			y := b.node()
			b.edge(y, join)
		}
		return b.finish(rng, root, true), "heavy-in-degree-distinct-preds"
	}
	n := rng.Range(2, 12)
	b.nodes(n - 1)
	for v := 1; v < n; v++ { // a random tree hanging off the root, plus chords
		b.edge(rng.Intn(v), v)
	}
	for e := rng.Intn(2 * n); e > 0; e-- {
		b.edge(rng.Intn(n), rng.Intn(n))
	}
	// one to three edges (possibly new ones, possibly self-loops) repeated
	for e := rng.Range(1, 3); e > 0; e-- {
		x, y := rng.Intn(n), rng.Intn(n)
		for m := rng.Range(50, 300); m > 0; m-- {
			b.edge(x, y)
		}
	}
	// a join with 200..700 predecessor entries from a few distinct nodes
	join := rng.Intn(n)
	for total := rng.Range(200, 700); total > 0; {
		x := rng.Intn(n)
		m := rng.Range(1, 150)
		if m > total {
			m = total
		}
		total -= m
		for ; m > 0; m-- {
			b.edge(x, join)
		}
	}
	// unreachable nodes pointing at the join (and elsewhere) many times
	for x := rng.Intn(4); x > 0; x-- {
		y := b.node()
		for m := rng.Range(10, 100); m > 0; m-- {
			b.edge(y, join)
		}
		b.edge(y, rng.Intn(n))
		if rng.Bool() {
			b.edge(y, y)
		}
	}
	if rng.Intn(4) == 0 { // the root without in-edges
		for x := range b.out {
			l := b.out[x][:0]
			for _, y := range b.out[x] {
				if y != root {
					l = append(l, y)
				}
			}
			b.out[x] = l
		}
	}
	return b.finish(rng, root, true), "heavy-multi-edge"
}

// genLarge: 1100-2100 nodes so that reachable node ids cross the 1024 growth
// boundary of the library's mark set; bushy tree plus chords, back edges and an
// unreachable region feeding joins.
func c19GenLarge(rng *mon.Rand, i int) (c19Case, string) {
	n := rng.Range(1100, 2100)
	if i == 0 {
		n = 1025
	}
	b := &c19B{}
	b.nodes(n)
	window := rng.PickI(2, 8, 64, 512)
	for v := 1; v < n; v++ {
		lo := v - window
		if lo < 0 {
			lo = 0
		}
		b.edge(lo+rng.Intn(v-lo), v)
	}
	for e := rng.Range(n/4, n); e > 0; e-- { // chords, forward and backward
		u, v := rng.Intn(n), rng.Intn(n)
		if rng.Intn(3) != 0 {
			// keep most chords local so that dominator trees stay deep
			v = u + rng.Range(-20, 40)
			if v < 0 || v >= n {
				continue
			}
		}
		b.edge(u, v)
	}
	main := n
	k := rng.Range(5, 60)
	b.nodes(k)
	for u := main; u < main+k; u++ {
		b.edge(u, rng.Intn(main))
		b.edge(u, main+rng.Intn(k))
	}
	return b.finish(rng, 0, i%2 == 1), "large"
}

// ---- run ------------------------------------------------------------------------

// c19WalkSelfTest: the definitional walk on two graphs whose orders are written
// down by hand (a tree with an inner fork; a graph with a cross edge, a back
// edge, a self-loop and an unreachable node).
func c19WalkSelfTest() error {
	var d ref.DFSWalk
	for _, t := range []struct {
		out       [][]int
		root      int
		pre, post []int
	}{
		{[][]int{{2, 1}, {4, 3}, {}, {5}, {}, {}}, 0, []int{0, 2, 1, 4, 3, 5}, []int{2, 4, 5, 3, 1, 0}},
		{[][]int{{1, 2}, {3, 1}, {3, 0}, {}, {0}}, 0, []int{0, 1, 3, 2}, []int{3, 1, 2, 0}},
		{[][]int{{}}, 0, []int{0}, []int{0}},
	} {
		if ok := d.Run(len(t.out), t.root, func(v int) []int { return t.out[v] }); !ok || !eqIntsC19(d.Pre, t.pre) || !eqIntsC19(d.Post, t.post) {
			return fmt.Errorf("DFSWalk on %v from %d: pre %v post %v, want %v and %v", t.out, t.root, d.Pre, d.Post, t.pre, t.post)
		}
	}
	return nil
}

func c19Run(r *mon.Run) {
	maxN := r.Pick(4, 5)
	r.Rule(fmt.Sprintf("every digraph (adjacency matrix, self-loops included) on 1..%d nodes with every root, successor/predecessor list order varied by case; random matrices on 5..8 nodes; random multigraphs up to 40 nodes: G(n,p) from tree-like to complete, structured (reducible) control flow, planted two-entry cycles and bidirectional chains entered from both ends (one sweep per chain node), each optionally with an unreachable region feeding reachable joins, parallel edges, self-loops, chosen root in-degree, random node numbering and list order; sparse graphs with 1025..2160 nodes. Depth and weight: bidirectional chains as long as the 40-node limit allows (and some with 60..200 nodes) at random and, deterministically, every maximal chain variant for the sizes 33..40, 64, 65, 100, 200 (the number of sweeps an iterative dataflow solution of the reference's own needs is recorded as a class); paths root->1->2->... of up to 40 nodes (dominator tree as deep as the graph) and of 1040..1600 nodes, with backward, parallel and self edges and unreachable feeders; small graphs with edges repeated 50..300 times, joins with 200..700 predecessor entries, unreachable nodes pointing at a join 10..100 times, and joins with 200..330 distinct predecessors. Histories: every digraph on 2..%d nodes with every ordered pair of distinct roots, and random graphs of all the kinds above with 2..6 roots, queried one after another on one graph object that is never rebuilt. Storage of the lists the library sees varied by case: exact capacity, back-to-back sub-slices of one array (capacity reaching into the next list), the same with canary cells between the lists. Every query: IDom, then DomFrontier on the slice IDom returned (a copy of idom* if that was wrong), then Dom on that same slice as DomFrontier left it (and Dom(idom*) if it was changed), then DomFrontier with nil; on every other case DomFrontier and Dom get a caller-made copy of that slice (own array, spare capacity filled with junk) instead; every tree Dom returns is asked twice (IDom/Out/In ascending with the slices kept as handed out and looked at only after the last of these calls, then In/Out/IDom descending with every answer looked at at once, then the kept slices once more), and, whenever a node with several children has a child with children and on every fourth other tree, the library's PreOrder and PostOrder are run over it from the root and compared with the definitional depth-first orders of idom*'s inversion in the adjacency order the tree reported to that traversal; on every 16th case the slice IDom returned, both frontier results and the tree for the first root are compared once more after the last library call of the case, a round of IDom/DomFrontier/Dom/DomFrontier(nil) on a second, bigger graph (hub + ring, dominators in closed form) made in between; on every fourth case the library sees the graph through a second BiGraph implementation (struct value, nil for empty lists, a fresh copy of the list on every call); all through a counting BiGraph and all judged against the reference for the graph as the caller built it; the graph object is never repaired, and once a call has changed its lists it is queried with up to 8 further roots. Non-trivial: every case hits a root-in-degree and a layout class; distinct by hash of (n, roots, layout, all lists).", maxN, r.Pick(3, 4)))
	r.Assume("reference: dominance by node deletion + reachability (bitmask version <=64 nodes, boolean-matrix version above), cross-checked at start-up against each other, against a dataflow fixed point and against three graphs from the literature; on every graph of 6 or more nodes idom* is also compared with an iterative dataflow solution written for the reference (a difference makes the run inconclusive)",
		"DomFrontier lists are compared as sets (duplicates are counted, not judged); sets of unreachable nodes are not judged; membership of the root is not compared when the root has exactly one in-edge",
		"DomTree.In(v) for a node without immediate dominator may be empty or [-1]",
		"a non-terminating loop that never calls into the graph can only trip the process watchdog (inconclusive)",
		"writes of the library into the graph's lists or into the idom argument are not judged by themselves (only noted): judged are the values later calls return for the same graph object (kind history-after-modification) and the tree Dom builds from the slice that went through DomFrontier (kind pipeline-Dom)",
		"writes into spare capacity that belongs to no list (canary cells) are noted, not judged",
		"a DomTree is used as the graph.BiGraph it is: the slices Out and In hand out must stay valid while the tree is used (the library's own traversals assume that of any Graph); the order of the children is free (compared as sets; the traversal orders are judged in the order the tree itself reported to the traversal, and not at all should a tree report two different orders for one node)",
		"what IDom, DomFrontier and Dom returned belongs to the caller: it must read the same after later calls of the library, on this graph or another")
	r.Gate("join-with-unreachable-pred", "irreducible-loop", "root-in-0", "root-in-1(carve-out)", "root-in>=2",
		"parallel-edges-into-join", "reachable-node-id>=1024", "unreachable-nodes", "self-loop", "root-in-some-frontier",
		"structured", "planted-two-entry-cycle", "two-entry-bidirectional-chain", "density-tree-like", "density-complete",
		"layout-exact-capacity", "layout-csr-shared-capacity", "layout-slack-canaries",
		"shared-array:list-after-root's-in-list-is-a-reachable-join's",
		"history-several-roots", "history-returns-to-first-root", "history-later-root-reaches-nodes-unreachable-before",
		"pipeline:IDom->DomFrontier->Dom-on-one-slice",
		// round 3
		"pipeline:IDom->caller's-copy->DomFrontier->Dom", "idom-arg:caller-copy-with-spare-capacity",
		"bigraph:value-type,nil-empty-lists,fresh-copies",
		"chain-maximal", "chain-of-60..200-nodes", "long-path", "long-path-large", "heavy-multi-edge", "heavy-in-degree-distinct-preds",
		"dataflow-fixpoint-needs>=32-sweeps", "dataflow-fixpoint-needs>=38-sweeps", "dataflow-fixpoint-needs>=64-sweeps",
		"dominator-tree-depth>=39", "dominator-tree-depth>=1000",
		"edge-multiplicity>=50", "in-degree>=200", "join-with>=32-unreachable-pred-edges",
		// round 4
		"domtree:>=2-nodes-with-children(child-lists-held-across-later-Out-calls)",
		"domtree:node-with>=2-children-one-of-them-with-children(walk-holds-a-list-across-Out-calls)",
		"domtree-traversal:PreOrder,PostOrder-over-the-DomTree",
		"recheck:first-root's-results-compared-again-after-the-last-call(second-graph-in-between)")

	st := mon.NewRand(0xc19, 1)
	if err := ref.DomSelfTest(st.Uint64, r.Pick(3000, 20000)); err != nil {
		r.Inconclusive("reference self-test failed: " + err.Error())
		return
	}

	if err := c19WalkSelfTest(); err != nil {
		r.Inconclusive("reference self-test failed: " + err.Error())
		return
	}

	// exhaustive
	var nExh int64
	for n := 1; n <= maxN; n++ {
		n := n
		total := 1 << uint(n*n)
		block := total
		if block > 2048 {
			block = 2048
		}
		keepDistinct := n <= 4
		r.Parallel(fmt.Sprintf("exhaustive-n%d", n), total/block, func(w *mon.W, bi int) {
			sc := c19Pool.Get().(*c19Scratch)
			defer c19Pool.Put(sc)
			for m := bi * block; m < (bi+1)*block; m++ {
				for root := 0; root < n; root++ {
					variant := (m*7 + root*3 + m>>5) & 3
					c := sc.matrixCase(n, uint64(m), root, variant)
					c.Layout = int((uint(m)*2654435761>>7 + uint(root)) % 3)
					c.Mode = c19ModeOf(uint(m)*5 + uint(root))
					c19Judge(w, c, sc, keepDistinct)
				}
			}
		})
		nExh += int64(total) * int64(n)
		r.Exhaustive(fmt.Sprintf("all %d adjacency matrices on %d nodes x %d roots", total, n, n))
	}
	r.Extra("exhaustive_cases", nExh)
	if maxN > 4 {
		r.Extra("note_distinct", "distinct_nontrivial counts the enumerated cases only up to 4 nodes (the 5-node enumeration is counted in exhaustive_cases)")
	}

	// random matrices on 5..8 nodes with every root
	r.Parallel("random-small", r.Pick(300000, 600000), func(w *mon.W, i int) {
		rng := w.Rng
		n := rng.Range(5, 8)
		sc := c19Pool.Get().(*c19Scratch)
		defer c19Pool.Put(sc)
		m := rng.Uint64()
		switch rng.Intn(3) {
		case 0:
			m &= rng.Uint64()
		case 1:
			m &= rng.Uint64() & rng.Uint64()
		}
		if n*n < 64 {
			m &= 1<<uint(n*n) - 1
		}
		variant := rng.Intn(4)
		for root := 0; root < n; root++ {
			c := sc.matrixCase(n, m, root, variant)
			c.Layout = rng.Intn(3)
			c.Mode = c19RandMode(rng) | c19RecheckOf(uint(i)*11+uint(root))
			c19Judge(w, c, sc, true)
		}
	})

	// ---- histories: several roots queried one after another on one and the
	// same graph object (never rebuilt or repaired in between)
	histN := r.Pick(3, 4)
	for n := 2; n <= histN; n++ {
		n := n
		total := 1 << uint(n*n)
		block := total
		if block > 512 {
			block = 512
		}
		r.Parallel(fmt.Sprintf("history-exhaustive-n%d", n), total/block, func(w *mon.W, bi int) {
			sc := c19Pool.Get().(*c19Scratch)
			defer c19Pool.Put(sc)
			var second [1]int
			for m := bi * block; m < (bi+1)*block; m++ {
				for r1 := 0; r1 < n; r1++ {
					for r2 := 0; r2 < n; r2++ {
						if r1 == r2 {
							continue
						}
						c := sc.matrixCase(n, uint64(m), r1, (m+r1+r2)&3)
						second[0] = r2
						c.Roots = second[:]
						c.Mode = c19ModeOf(uint(m)*7 + uint(r1*5+r2))
						if n <= 3 {
							for c.Layout = 0; c.Layout < 3; c.Layout++ {
								c19Judge(w, c, sc, true)
							}
						} else {
							c.Layout = int((uint(m)*2654435761>>9 + uint(r1*5+r2)) % 3)
							c19Judge(w, c, sc, false)
						}
					}
				}
			}
		})
		r.Exhaustive(fmt.Sprintf("history: all %d adjacency matrices on %d nodes x every ordered pair of distinct roots queried on one graph object", total, n))
	}
	r.Parallel("history-random", r.Pick(120000, 300000), func(w *mon.W, i int) {
		rng := w.Rng
		var c c19Case
		var sc *c19Scratch
		switch i % 8 {
		default: // random matrices on 3..8 nodes
			sc = c19Pool.Get().(*c19Scratch)
			defer c19Pool.Put(sc)
			n := rng.Range(3, 8)
			m := rng.Uint64()
			switch rng.Intn(3) {
			case 0:
				m &= rng.Uint64()
			case 1:
				m &= rng.Uint64() & rng.Uint64()
			}
			if n*n < 64 {
				m &= 1<<uint(n*n) - 1
			}
			c = sc.matrixCase(n, m, rng.Intn(n), rng.Intn(4))
		case 5:
			c, _ = c19GenDensity(rng, rng.Intn(10))
		case 6:
			c, _ = c19GenStructured(rng, rng.Intn(3))
		case 7:
			c, _ = c19GenIrreducible(rng, rng.Intn(4))
		}
		n := len(c.Out)
		k := rng.Range(1, 5)
		if k > n {
			k = n
		}
		c.Roots = make([]int, k)
		for j := range c.Roots {
			c.Roots[j] = rng.Intn(n)
		}
		if rng.Intn(3) == 0 {
			c.Roots[k-1] = c.Root // back to the first root
		}
		c.Layout = rng.Intn(3)
		c.Mode = c19RandMode(rng) | c19RecheckOf(uint(i))
		c19Judge(w, c, sc, true)
	})

	gen := func(class string, count int, f func(*mon.Rand, int) (c19Case, string)) {
		r.Parallel(class, count, func(w *mon.W, i int) {
			c, label := f(w.Rng, i)
			c.Layout = w.Rng.Intn(3)
			c.Mode = c19RandMode(w.Rng) | c19RecheckOf(uint(i))
			w.Hit(label)
			c19Judge(w, c, nil, true)
		})
	}
	gen("random-density", r.Pick(150000, 400000), c19GenDensity)
	gen("random-structured", r.Pick(100000, 300000), c19GenStructured)
	gen("random-irreducible", r.Pick(100000, 300000), c19GenIrreducible)

	// ---- depth: chains that need as many sweeps as the graph has nodes
	nMax := c19MaxChainVariants * len(c19MaxChainSizes)
	r.Parallel("chain-maximal", nMax, func(w *mon.W, i int) {
		c := c19MaxChain(i)
		w.Hit("chain-maximal")
		w.HitIf(len(c.Out) > 40, "chain-of-60..200-nodes")
		if i%7 == 3 { // a history: from the middle of the chain, then from the root again
			c.Roots = []int{(c.Root + len(c.Out)/2) % len(c.Out), c.Root}
		}
		c19Judge(w, c, nil, true)
	})
	r.Exhaustive(fmt.Sprintf("chain-maximal: for each graph size in %v the root plus a bidirectional chain entered from the root at both ends, in all %d variants (which end first in the root's successor list, root numbered first/middle/last, chain numbered away from/towards the first entry, entered directly/through one intermediate node at either end, lists ascending/descending)", c19MaxChainSizes, c19MaxChainVariants))
	gen("chain-deep", r.Pick(2000, 12000), func(rng *mon.Rand, i int) (c19Case, string) {
		if i%40 == 7 {
			return c19GenChain(rng, rng.Range(60, 200), rng.Bool()), "chain-of-60..200-nodes"
		}
		return c19GenChain(rng, 40, i%2 == 0), "two-entry-bidirectional-chain"
	})
	// ---- depth of the dominator tree, weight of the lists
	gen("long-path", r.Pick(6000, 30000), func(rng *mon.Rand, i int) (c19Case, string) { return c19GenLongPath(rng, i, 0) })
	gen("heavy-multi-edge", r.Pick(3000, 15000), c19GenHeavy)
	// few workers and a smaller stack limit: should a recursion of the library
	// run away on a 2000-node graph, the process dies of stack exhaustion (which
	// ./check reports as a violation) before it eats the machine's memory
	debug.SetMaxStack(512 << 20)
	r.ParallelN("large-ids", r.Pick(32, 96), 4, func(w *mon.W, i int) {
		c, label := c19GenLarge(w.Rng, i)
		c.Layout = i % 3
		c.Mode = c19ModeOf(uint(i)) &^ c19Recheck
		if i%8 == 3 {
			c.Mode |= c19Recheck
		}
		w.Hit(label)
		c19Judge(w, c, nil, true)
	})
	r.ParallelN("long-path-large", r.Pick(6, 24), 4, func(w *mon.W, i int) {
		c, label := c19GenLongPath(w.Rng, i, w.Rng.Range(1040, 1600))
		c.Layout = i % 3
		c.Mode = i % 4
		if i%4 == 1 {
			c.Mode |= c19Recheck
		}
		w.Hit(label)
		c19Judge(w, c, nil, true)
	})
}
