package props

import (
	"encoding/json"
	"fmt"
	"math"
	"math/big"

	"github.com/aclements/go-moremath/scale"

	"verifmon/mon"
	"verifmon/ref"
)

// C17 — ticks are few enough, nice, ascending, inside the domain; FindLevel
// returns the lowest feasible level; Nice only expands.
//
// Three kinds of case share one case struct:
//   "fl"  one TickOptions.FindLevel call on a harness Ticker with a
//         step-shaped non-increasing count function (M-ref against a linear
//         scan, M-step on the CountTicks calls);
//   "lin" one Linear domain + TickOptions: Ticks, CountTicks/TicksAtLevel on
//         the levels around the chosen one and a few far ones, Nice, Nice∘Nice,
//         Ticks after Nice;
//   "log" the same for a Log domain.
// A "lin"/"log" case with Prev set is a history of length two: the scale value
// first serves the domain Prev (judged in full, optionally Nice'd in place),
// then its exported Min/Max/Base fields are assigned the case's domain and
// everything is judged again on the SAME value with the case's reference.

type c17Case struct {
	Kind     string `json:"kind"`
	Min      mon.F  `json:"min"`
	Max      mon.F  `json:"max"`
	Base     int    `json:"base"`
	OMax     int    `json:"omax"`
	MinLevel int    `json:"min_level"`
	MaxLevel int    `json:"max_level"`
	// FindLevel cases: count(l) = Vals[#{b in Brk : b <= l}]
	Vals  []int `json:"vals,omitempty"`
	Brk   []int `json:"brk,omitempty"`
	Guess int   `json:"guess,omitempty"`
	// reused scale value: what it served before the fields were re-assigned
	Prev *c17Prev `json:"prev,omitempty"`
	// Clamp: 0 the Clamp field stays false, 1 it is set by assignment, 2 by
	// SetClamp(true), on the value before its first call (ticks do not
	// depend on it)
	Clamp int `json:"clamp,omitempty"`
	// Alt: other TickOptions, asked of the same scale value after the calls
	// with the case's own options and after Nice in place with them
	Alt *c17Opts `json:"alt,omitempty"`

	// not serialised: a derived case (the fields a value has after a partial
	// assignment or after Nice in place) is judged with orig as the case to
	// record and replay, and ctx says in the messages where it comes from
	orig *c17Case
	ctx  string
}

type c17Opts struct {
	OMax     int `json:"omax"`
	MinLevel int `json:"min_level"`
	MaxLevel int `json:"max_level"`
}

// rec is the case to record with a violation: the one Replay re-executes.
func (c c17Case) rec() c17Case {
	if c.orig != nil {
		return *c.orig
	}
	return c
}

type c17Prev struct {
	Min      mon.F  `json:"min"`
	Max      mon.F  `json:"max"`
	Base     int    `json:"base"`
	OMax     int    `json:"omax"`
	MinLevel int    `json:"min_level"`
	MaxLevel int    `json:"max_level"`
	Hist     string `json:"hist"` // "calls": Ticks, CountTicks, TicksAtLevel; "nice": those, then Nice on the value itself
	// Assign: which exported fields are then assigned from the case: "" all of
	// Min, Max, Base; "base", "min", "max" that one only, the others stay as
	// the value has them (after Nice: the niced ends) and the case is judged
	// with the reference of the fields as they are
	Assign string `json:"assign,omitempty"`
}

func (p *c17Prev) asCase(kind string) c17Case {
	return c17Case{Kind: kind, Min: p.Min, Max: p.Max, Base: p.Base, OMax: p.OMax, MinLevel: p.MinLevel, MaxLevel: p.MaxLevel}
}

func c17PrevOf(a c17Case, hist string) *c17Prev {
	return &c17Prev{Min: a.Min, Max: a.Max, Base: a.Base, OMax: a.OMax, MinLevel: a.MinLevel, MaxLevel: a.MaxLevel, Hist: hist}
}

func init() {
	mon.Register(&mon.Prop{ID: "C17", Run: c17Run, Replay: func(w *mon.W, v *mon.ViolationRec) {
		var c c17Case
		if json.Unmarshal(v.Case, &c) != nil {
			return
		}
		switch c.Kind {
		case "fl":
			var st c17FLStats
			c17JudgeFL(w, &c, &st, nil)
			st.flush(w)
		case "lin":
			c17JudgeLin(w, c)
		case "log":
			c17JudgeLog(w, c)
		}
	}})
}

func (c c17Case) opts() scale.TickOptions {
	return scale.TickOptions{Max: c.OMax, MinLevel: c.MinLevel, MaxLevel: c.MaxLevel}
}

func (c c17Case) String() string {
	hist := ""
	if c.Prev != nil && c.Kind != "fl" {
		what := "Ticks/CountTicks/TicksAtLevel calls"
		if c.Prev.Hist == "nice" {
			what += " and Nice"
		}
		which := "fields"
		if c.Prev.Assign != "" {
			which = "only " + c.Prev.Assign
		}
		hist = fmt.Sprintf(" [%s assigned on a scale value that served %v before: %s]", which, c.Prev.asCase(c.Kind), what)
	}
	if c.Clamp != 0 {
		hist += []string{"", " [Clamp=true]", " [SetClamp(true)]"}[c.Clamp%3]
	}
	hist += c.ctx
	switch c.Kind {
	case "fl":
		return fmt.Sprintf("FindLevel{Max:%d,MinLevel:%d,MaxLevel:%d} guess=%d count=vals%v@breaks%v", c.OMax, c.MinLevel, c.MaxLevel, c.Guess, c.Vals, c.Brk)
	case "lin":
		return fmt.Sprintf("Linear{Min:%v,Max:%v,Base:%d} opts{Max:%d,MinLevel:%d,MaxLevel:%d}%s", float64(c.Min), float64(c.Max), c.Base, c.OMax, c.MinLevel, c.MaxLevel, hist)
	}
	return fmt.Sprintf("Log{Min:%v,Max:%v,Base:%d} opts{Max:%d,MinLevel:%d,MaxLevel:%d}%s", float64(c.Min), float64(c.Max), c.Base, c.OMax, c.MinLevel, c.MaxLevel, hist)
}

// ---------------------------------------------------------------------------
// FindLevel

type c17Budget struct{ calls, budget int }

// c17StepTicker is the harness Ticker: a non-increasing step function that
// counts the calls the library makes (M-step).
type c17StepTicker struct {
	vals, brk []int
	calls     int
	budget    int
}

func (t *c17StepTicker) count(l int) int {
	i := 0
	for i < len(t.brk) && t.brk[i] <= l {
		i++
	}
	return t.vals[i]
}

func (t *c17StepTicker) CountTicks(l int) int {
	t.calls++
	if t.calls > t.budget {
		panic(c17Budget{t.calls, t.budget})
	}
	return t.count(l)
}

func (t *c17StepTicker) TicksAtLevel(l int) interface{} {
	return make([]float64, t.count(l))
}

type c17FLStats struct {
	viol                                                                                   int
	n, unsat, sat, noLowest, windowBinding, guessOutside, guessAbove, guessBelow, maxCalls int64
	steep, steepTop, bigMax, hugeCount, farUp, farDown                                     int64
}

func (s *c17FLStats) flush(w *mon.W) {
	w.EvalN("FindLevel", s.n)
	hit := func(n int64, c string) {
		if n > 0 {
			w.Hit(c)
		}
	}
	hit(s.unsat, "fl-unsatisfiable")
	hit(s.sat, "fl-satisfiable")
	hit(s.noLowest, "fl-every-level-feasible")
	hit(s.windowBinding, "fl-minlevel-binding")
	hit(s.guessOutside, "fl-guess-outside-window")
	hit(s.guessAbove, "fl-guess-above-answer")
	hit(s.guessBelow, "fl-guess-below-answer")
	hit(s.steep, "fl-count-drops-from>100x-max-at-answer")
	hit(s.steepTop, "fl-count-drops-from>100x-max-at-maxlevel")
	hit(s.bigMax, "fl-max>20")
	hit(s.hugeCount, "fl-count>=maxint/8")
	hit(s.farUp, "fl-unlimited-answer-above-100")
	hit(s.farDown, "fl-unlimited-answer-below--100")
}

// c17FLRef is the linear scan: the lowest level of the window whose count is
// at most max. unbounded says the window has no lower end and every level is
// feasible, so no lowest level exists.
func c17FLRef(t *c17StepTicker, o scale.TickOptions) (level int, ok, unbounded bool) {
	if o.Max < 1 {
		return 0, false, false
	}
	if o.MinLevel == 0 && o.MaxLevel == 0 {
		// no limit: the function is constant below its first and above its
		// last breakpoint
		if t.vals[len(t.vals)-1] > o.Max {
			return 0, false, false
		}
		if t.vals[0] <= o.Max {
			return 0, true, true
		}
		for _, b := range t.brk {
			if t.count(b) <= o.Max {
				return b, true, false
			}
		}
		return 0, false, false
	}
	for l := o.MinLevel; l <= o.MaxLevel; l++ {
		if t.count(l) <= o.Max {
			return l, true, false
		}
	}
	return 0, false, false
}

func c17CallFL(o *scale.TickOptions, t scale.Ticker, guess int) (l int, ok bool, pan any) {
	defer func() {
		if e := recover(); e != nil {
			pan = e
		}
	}()
	l, ok = o.FindLevel(t, guess)
	return
}

// c17JudgeFL takes the case by pointer: it runs hundreds of millions of times.
func c17JudgeFL(w *mon.W, cp *c17Case, st *c17FLStats, t *c17StepTicker) {
	c := cp
	if t == nil {
		t = &c17StepTicker{vals: c.Vals, brk: c.Brk}
	}
	t.calls = 0
	o := scale.TickOptions{Max: c.OMax, MinLevel: c.MinLevel, MaxLevel: c.MaxLevel}
	unlimited := o.MinLevel == 0 && o.MaxLevel == 0
	span := 2001
	if !unlimited {
		span = o.MaxLevel - o.MinLevel + 1
		if span < 0 {
			span = 0
		}
	}
	// M-step: a linear walk needs span+2 calls; twice that plus slack never
	// trips a correct search and any non-terminating one trips it at once.
	t.budget = 2*span + 8
	wantL, wantOK, unbounded := c17FLRef(t, o)
	st.n++
	if wantOK {
		st.sat++
		if unbounded {
			st.noLowest++
		} else {
			if !unlimited && wantL == o.MinLevel && t.count(wantL-1) <= o.Max {
				st.windowBinding++
			}
			if c.Guess > wantL {
				st.guessAbove++
			} else if c.Guess < wantL {
				st.guessBelow++
				// the count falls from more than 100 times Max to at most
				// Max within one level, and the search comes from below
				if (unlimited || wantL > o.MinLevel) && t.count(wantL-1)/100 > o.Max {
					st.steep++
					if !unlimited && wantL == o.MaxLevel {
						st.steepTop++
					}
				}
			}
			if unlimited && wantL > 100 {
				st.farUp++
			} else if unlimited && wantL < -100 {
				st.farDown++
			}
		}
	} else {
		st.unsat++
	}
	if o.Max > 20 {
		st.bigMax++
	}
	if t.vals[0] >= math.MaxInt/8 {
		st.hugeCount++
	}
	if !unlimited && (c.Guess < o.MinLevel || c.Guess > o.MaxLevel) {
		st.guessOutside++
	}
	oc := o
	l, ok, pan := c17CallFL(&oc, t, c.Guess)
	if int64(t.calls) > st.maxCalls {
		st.maxCalls = int64(t.calls)
	}
	if pan != nil {
		if b, isB := pan.(c17Budget); isB {
			w.Violate("findlevel-step-budget", fmt.Sprintf("%v: more than %d CountTicks calls (window of %d levels): the search does not terminate in bounded steps", c, b.budget, span), *c)
		} else {
			w.Violate("findlevel-panic", fmt.Sprintf("%v panicked: %v", c, pan), *c)
		}
		return
	}
	if ok == wantOK && (!ok || (unbounded && t.count(l) <= o.Max) || (!unbounded && l == wantL)) {
		return // as the linear scan says
	}
	if st.viol++; st.viol > 40 {
		// the first few of a function carry the full text
		w.Violate("findlevel-wrong", "further wrong FindLevel results on the same count function", *c)
		return
	}
	switch {
	case ok != wantOK:
		if wantOK {
			w.Violate("findlevel-false-failure", fmt.Sprintf("%v reported failure, but level %d (count %d) satisfies the constraints", c, wantL, t.count(wantL)), *c)
		} else {
			w.Violate("findlevel-false-success", fmt.Sprintf("%v returned level %d ok=true, but no level of the window has count <= Max", c, l), *c)
		}
	case ok && unbounded:
		if t.count(l) > o.Max {
			w.Violate("findlevel-level", fmt.Sprintf("%v returned level %d whose count %d exceeds Max", c, l, t.count(l)), *c)
		}
	case ok && l != wantL:
		w.Violate("findlevel-level", fmt.Sprintf("%v returned level %d (count %d); the lowest feasible level is %d (count %d, count below it %d)", c, l, t.count(l), wantL, t.count(wantL), t.count(wantL-1)), *c)
	}
}

// c17StepFuncs enumerates every non-increasing step function with at most
// maxSteps steps at levels lo..hi and values 0..vmax, in canonical form
// (strictly decreasing values, strictly increasing breakpoints).
func c17StepFuncs(lo, hi, vmax, maxSteps int) (fs [][2][]int) {
	var vals, brk []int
	var recB func(k, from int)
	var recV func(k, below int)
	recB = func(k, from int) {
		if len(brk) == k {
			fs = append(fs, [2][]int{append([]int(nil), vals...), append([]int(nil), brk...)})
			return
		}
		for b := from; b <= hi; b++ {
			brk = append(brk, b)
			recB(k, b+1)
			brk = brk[:len(brk)-1]
		}
	}
	recV = func(k, below int) {
		if len(vals) == k+1 {
			recB(k, lo)
			return
		}
		for v := below - 1; v >= 0; v-- {
			vals = append(vals, v)
			recV(k, v)
			vals = vals[:len(vals)-1]
		}
	}
	for k := 0; k <= maxSteps; k++ {
		recV(k, vmax+1)
	}
	return
}

// helpers shared by the Linear and Log judges --------------------------------

func c17Ulp(x float64) float64 {
	x = math.Abs(x)
	if x == 0 || math.IsInf(x, 0) || math.IsNaN(x) {
		return 0
	}
	return math.Nextafter(x, math.Inf(1)) - x
}

func c17Fmt(xs []float64) string {
	if len(xs) <= 12 {
		return fmt.Sprintf("%v", xs)
	}
	return fmt.Sprintf("[%v %v %v ... %v %v] (%d)", xs[0], xs[1], xs[2], xs[len(xs)-2], xs[len(xs)-1], len(xs))
}

// ---------------------------------------------------------------------------
// Linear

// c17LinLevel is the reference tick lattice of one level: the indices n of
// the multiples n*S that must be ticks (mf..ml: inside the domain, or within
// 4 ulp of an end) and that may be ticks (af..al: within 2e-10 of the width
// plus 8 ulp of the larger end outside an end — the slack the statement names
// is 1e-10 of the width; the factor two and the ulps leave room for how an
// implementation rounds "end -/+ slack" and the division by the spacing).
type c17LinLevel struct {
	S              *big.Rat
	Sf             float64
	mf, ml, af, al int64
	ok             bool
}

func c17Span(f, l int64) int64 {
	if l < f {
		return 0
	}
	return l - f + 1
}
func (L *c17LinLevel) mand() int64  { return c17Span(L.mf, L.ml) }
func (L *c17LinLevel) allow() int64 { return c17Span(L.af, L.al) }
func (L *c17LinLevel) amb() bool    { return L.mand() != L.allow() }

// c17LinSlack: a multiple of the spacing up to this fraction of the width
// outside the domain may be a tick, and Nice may move an end inwards by it
// (twice the 1e-10 the statement's quantifier names as the tolerance).
const c17LinSlack = 2e-10

type c17LinRef struct {
	lo, hi, w  float64
	base       int
	ulpM       float64
	m1, m2     float64
	band       float64 // 1e-9 of the width: outer edge of the hostile band beyond m2 (classes only)
	cache      map[int]*c17LinLevel
	incomplete bool // some level could not be indexed with int64
	mw         *mon.W
}

func c17NewLinRef(lo, hi float64, base int) *c17LinRef {
	R := &c17LinRef{lo: lo, hi: hi, w: hi - lo, base: base, cache: map[int]*c17LinLevel{}}
	R.ulpM = c17Ulp(math.Max(math.Abs(lo), math.Abs(hi)))
	R.m1 = 4 * R.ulpM
	R.m2 = c17LinSlack*R.w + 8*R.ulpM
	R.band = 1e-9 * R.w
	if R.m1 > R.m2/16 {
		// outside the statement's domain (|centre|/width far above 1e3):
		// everything near an end is ambiguous
		R.m1 = 0
	}
	return R
}

func (R *c17LinRef) eb() float64 {
	if R.base == 0 {
		return 10
	}
	return float64(R.base)
}

func (R *c17LinRef) at(l int) *c17LinLevel {
	if L := R.cache[l]; L != nil {
		return L
	}
	L := &c17LinLevel{S: ref.LinSpacing(R.base, l)}
	L.Sf, _ = L.S.Float64()
	var ok1, ok2 bool
	L.mf, L.ml, ok1 = ref.LinInside(R.lo, R.hi, L.S, R.m1)
	L.af, L.al, ok2 = ref.LinInside(R.lo, R.hi, L.S, R.m2)
	L.ok = ok1 && ok2 && L.Sf > 0 && !math.IsInf(L.Sf, 0)
	if !L.ok {
		R.incomplete = true
	}
	R.cache[l] = L
	return L
}

// windowTooFine: the coarsest level of a level window holds more than 1e15
// ticks, so that on the finer levels of the window the tick count leaves the
// int range. The generators keep every window within 30 levels of the level
// that fits (at most ~1e13 ticks); a derived case (one field assigned on a
// value Nice'd to a much wider domain, other options on such a value) can lie
// beyond, and is not judged.
func (R *c17LinRef) windowTooFine(minLevel, maxLevel int) bool {
	if (minLevel == 0 && maxLevel == 0) || minLevel > maxLevel {
		return false
	}
	Sf, _ := ref.LinSpacing(R.base, maxLevel).Float64()
	return !(R.w/Sf <= 1e15)
}

// natural returns a level at which the domain certainly holds more than max
// ticks (every lower level holds at least as many).
func (R *c17LinRef) natural(max int) int {
	x := math.Log(R.w/float64(max+1)) / math.Log(R.eb())
	l := 2*int(math.Floor(x)) - 6
	for i := 0; i < 200 && R.at(l).ok && R.at(l).mand() <= int64(max); i++ {
		l -= 4
	}
	return l
}

// search finds the lowest level of the window whose tick count is at most
// max: lLo is the lowest level that may qualify (mandatory count fits), lHi
// the lowest that certainly does (allowed count fits).
func (R *c17LinRef) search(max, minLevel, maxLevel int) (lLo, lHi int, hasLo, hasHi bool) {
	l0 := R.natural(max)
	start, end := l0, l0+400
	if !(minLevel == 0 && maxLevel == 0) {
		if minLevel > maxLevel {
			return
		}
		if minLevel > start {
			start = minLevel
		}
		end = maxLevel
	}
	for l := start; l <= end; l++ {
		L := R.at(l)
		if !L.ok {
			return
		}
		if !hasLo && L.mand() <= int64(max) {
			lLo, hasLo = l, true
		}
		if L.allow() <= int64(max) {
			lHi, hasHi = l, true
			return
		}
	}
	return
}

func (R *c17LinRef) expect(l int) string {
	L := R.at(l)
	var xs []float64
	for n := L.mf; n <= L.ml && len(xs) < 24; n++ {
		xs = append(xs, ref.LinTick(n, L.S))
	}
	s := fmt.Sprintf("level %d (spacing %v): %d multiples inside the domain %s", l, L.Sf, L.mand(), c17Fmt(xs))
	if L.amb() {
		s += fmt.Sprintf(" (+%d within %g width of an end, optional)", L.allow()-L.mand(), c17LinSlack)
	}
	return s
}

// match compares a tick list with the lattice of level l; "" means it is an
// acceptable rendering of that level.
func (R *c17LinRef) match(got []float64, l int) string {
	L := R.at(l)
	if !L.ok {
		return ""
	}
	if len(got) == 0 {
		if L.mand() > 0 {
			return fmt.Sprintf("no ticks, but %d multiples of %v lie inside the domain", L.mand(), L.Sf)
		}
		return ""
	}
	tol := 1e-9*L.Sf + 8*R.ulpM
	q := got[0] / L.Sf
	if !(math.Abs(q) < 1e15) {
		return fmt.Sprintf("tick %v is not a multiple of %v", got[0], L.Sf)
	}
	a := int64(math.Round(q))
	for i, t := range got {
		want := ref.LinTick(a+int64(i), L.S)
		if R.mw != nil {
			R.mw.Err("linear tick value vs n*spacing", math.Abs(t-want), tol)
		}
		if !(math.Abs(t-want) <= tol) {
			return fmt.Sprintf("tick[%d]=%v, expected %d*%v=%v (off by %.3g spacings)", i, t, a+int64(i), L.Sf, want, (t-want)/L.Sf)
		}
	}
	return R.matchEnds(got, L, a)
}

// matchEnds: the index range a..a+len-1 of a tick list against the allowed
// and mandatory ranges of the level.
func (R *c17LinRef) matchEnds(got []float64, L *c17LinLevel, a int64) string {
	b := a + int64(len(got)) - 1
	if a < L.af {
		return fmt.Sprintf("first tick %v lies %.3g widths below the domain", got[0], (R.lo-got[0])/R.w)
	}
	if b > L.al {
		return fmt.Sprintf("last tick %v lies %.3g widths above the domain", got[len(got)-1], (got[len(got)-1]-R.hi)/R.w)
	}
	if L.mand() > 0 && a > L.mf {
		return fmt.Sprintf("multiple %v of the spacing lies inside the domain but the first tick is %v", ref.LinTick(L.mf, L.S), got[0])
	}
	if L.mand() > 0 && b < L.ml {
		return fmt.Sprintf("multiple %v of the spacing lies inside the domain but the last tick is %v", ref.LinTick(L.ml, L.S), got[len(got)-1])
	}
	return ""
}

// c17NiceSpacing says whether d is base^k (or 5*10^k in the default base) to
// 1e-9 relative, and returns the exact nice value.
func c17NiceSpacing(d float64, base int) (float64, bool) {
	if !(d > 0) || math.IsInf(d, 0) {
		return 0, false
	}
	b := float64(base)
	if base == 0 {
		b = 10
	}
	try := func(d, mul float64) (float64, bool) {
		k := math.Round(math.Log(d) / math.Log(b))
		v := math.Pow(b, k)
		if math.Abs(d/v-1) <= 1e-9 {
			return v * mul, true
		}
		return 0, false
	}
	if v, ok := try(d, 1); ok {
		return v, true
	}
	if base == 0 {
		return try(d/5, 5)
	}
	return 0, false
}

// c17Laws are the list-level laws of one Ticks event that need no model of
// the levels: count, order, containment, major in minor, nice values.
func c17LinLaws(w *mon.W, c c17Case, R *c17LinRef, major, minor []float64) bool {
	good := true
	bad := func(kind, msg string) {
		good = false
		w.Violate(kind, fmt.Sprintf("%v: %s; major=%s minor=%s", c, msg, c17Fmt(major), c17Fmt(minor)), c.rec())
	}
	if len(major) > c.OMax {
		bad("ticks-too-many", fmt.Sprintf("%d major ticks, Max is %d", len(major), c.OMax))
	}
	for name, ts := range map[string][]float64{"major": major, "minor": minor} {
		for i, t := range ts {
			if math.IsNaN(t) || math.IsInf(t, 0) {
				bad("ticks-non-finite", fmt.Sprintf("%s tick[%d]=%v", name, i, t))
				return false
			}
			if i > 0 && !(ts[i-1] < t) {
				bad("ticks-not-ascending", fmt.Sprintf("%s tick[%d]=%v after %v", name, i, t, ts[i-1]))
				return false
			}
			if t < R.lo-R.m2 || t > R.hi+R.m2 {
				bad("ticks-outside-domain", fmt.Sprintf("%s tick %v is outside [%v,%v] by more than %g of the width (%.3g widths)", name, t, R.lo, R.hi, c17LinSlack, math.Max(R.lo-t, t-R.hi)/R.w))
				break
			}
		}
		if len(ts) >= 2 {
			d := (ts[len(ts)-1] - ts[0]) / float64(len(ts)-1)
			dn, ok := c17NiceSpacing(d, c.Base)
			if !ok {
				bad("ticks-not-nice", fmt.Sprintf("%s tick spacing %v is not a power of the base (or 5 times a power of ten in the default base)", name, d))
				continue
			}
			tol := 1e-9 + 8*R.ulpM/dn
			for i, t := range ts {
				q := t / dn
				if !(math.Abs(q-math.Round(q)) <= tol) {
					bad("ticks-not-nice", fmt.Sprintf("%s tick[%d]=%v is %.12g spacings of %v: not an integer multiple", name, i, t, q, dn))
					break
				}
			}
		}
	}
	// every major tick is also a minor tick (ends exempt: see DESIGN)
	tolM := 1e-9*R.w + 8*R.ulpM
	j := 0
	for _, M := range major {
		if M-R.lo <= R.m2 || R.hi-M <= R.m2 {
			continue
		}
		for j < len(minor) && minor[j] < M-tolM {
			j++
		}
		if j >= len(minor) || math.Abs(minor[j]-M) > tolM {
			bad("major-not-in-minor", fmt.Sprintf("major tick %v is not among the minor ticks", M))
			break
		}
	}
	return good
}

func c17RatIsMultiple(x float64, S *big.Rat) bool {
	q := new(big.Rat).SetFloat64(x)
	return q.Quo(q, S).IsInt()
}

// c17JudgeLin judges one Linear case on a fresh scale value or, when c.Prev
// is set, on a value that has served another domain before: that domain is
// judged in full on the value (every method is called on the one addressable
// value, so pointer-receiver state would stick), optionally Nice'd in place,
// then Min, Max and Base are assigned and the case is judged on the same value.
func c17JudgeLin(w *mon.W, c c17Case) {
	clamp := func(s *scale.Linear) {
		switch c.Clamp {
		case 1:
			s.Clamp = true
		case 2:
			s.SetClamp(true)
		}
	}
	if c.Prev == nil {
		s := scale.Linear{Min: float64(c.Min), Max: float64(c.Max), Base: c.Base}
		clamp(&s)
		c17JudgeLinOn(w, c, &s)
		return
	}
	a := c.Prev.asCase("lin")
	a.Clamp = c.Clamp
	s := scale.Linear{Min: float64(a.Min), Max: float64(a.Max), Base: a.Base}
	clamp(&s)
	c17JudgeLinOn(w, a, &s)
	if c.Prev.Hist == "nice" {
		// judged on a copy inside the judge of a; here it leaves its state
		mon.Call(func() { s.Nice(a.opts()) })
		w.Hit("lin-reused-scale-after-nice")
	} else {
		w.Hit("lin-reused-scale-after-calls")
	}
	switch c.Prev.Assign {
	case "base":
		s.Base = c.Base
	case "min":
		s.Min = float64(c.Min)
	case "max":
		s.Max = float64(c.Max)
	default:
		s.Min, s.Max, s.Base = float64(c.Min), float64(c.Max), c.Base
		c17JudgeLinOn(w, c, &s)
		return
	}
	// one field assigned: the case is the fields as the value has them now
	eff := c
	eff.Min, eff.Max, eff.Base = mon.F(s.Min), mon.F(s.Max), s.Base
	eff.orig = &c
	if lo, hi := math.Min(s.Min, s.Max), math.Max(s.Min, s.Max); !c17InLinDomain(lo, hi) {
		w.Note("lin-one-field-assigned-outside-domain")
		return
	}
	w.Hit("lin-reused-scale-only-" + c.Prev.Assign + "-assigned")
	c17JudgeLinOn(w, eff, &s)
}

func c17JudgeLinOn(w *mon.W, c c17Case, sv *scale.Linear) {
	mn, mx := float64(c.Min), float64(c.Max)
	lo, hi := math.Min(mn, mx), math.Max(mn, mx)
	if !(hi > lo) || math.IsInf(hi-lo, 0) || c.OMax < 1 || c.Base == 1 || c.Base < 0 {
		return
	}
	o := c.opts()
	R := c17NewLinRef(lo, hi, c.Base)
	limited := !(c.MinLevel == 0 && c.MaxLevel == 0)
	R.mw = w
	if R.windowTooFine(c.MinLevel, c.MaxLevel) {
		w.Note("lin-skipped-level-window-beyond-1e15-ticks")
		return
	}
	lLo, lHi, hasLo, hasHi := R.search(c.OMax, c.MinLevel, c.MaxLevel)
	if R.incomplete {
		w.Note("lin-skipped-unindexable")
		return
	}

	// classes (inputs and reference-side quantities only)
	straddle := lo < 0 && hi > 0
	w.HitIf(c.OMax <= 2 && straddle, "lin-max<=2-straddling-0")
	w.HitIf(c.OMax <= 2 && !straddle, "lin-max<=2")
	w.HitIf(mn > mx, "lin-reversed-domain")
	w.HitIf(lo == -hi, "lin-centre-0")
	w.HitIf(c.Clamp != 0, "lin-clamp-set")
	w.Note(fmt.Sprintf("lin-base-%d", c.Base))
	if limited {
		uLo, _, uHas, _ := R.search(c.OMax, 0, 0)
		switch {
		case !hasLo:
			w.Hit("lin-limits-unsatisfiable")
			w.Hit("level-limits-binding")
		case uHas && lLo != uLo:
			w.Hit("lin-minlevel-binding")
			w.Hit("level-limits-binding")
		default:
			w.Note("lin-limits-not-binding")
		}
	}
	amb := false
	if hasLo {
		L, Lm := R.at(lLo), R.at(lLo-1)
		amb = L.amb() || Lm.amb() || !hasHi || lHi != lLo
		w.HitIf(c.Base == 0 && lLo&1 == 1, "lin-5x-level")
		w.HitIf(lLo < 0, "lin-negative-level")
		w.HitIf(lLo < 0 && lLo&1 == 1, "lin-negative-odd-level")
		w.HitIf(L.allow() == 0, "lin-empty-major")
		w.HitIf(L.mand() == int64(c.OMax), "lin-count-equals-max")
		w.HitIf(c17RatIsMultiple(lo, Lm.S) || c17RatIsMultiple(hi, Lm.S), "lin-tick-exactly-on-end")
		w.HitIf(amb, "lin-end-within-slack-window")
		// hostile band: a multiple of the major or minor spacing lies beyond
		// the allowed slack but within 1e-9 of the width of an end, outside
		// the domain (it must not be a tick) or inside it (Nice must not
		// round the end inwards to it)
		for _, LL := range []*c17LinLevel{L, Lm} {
			if f, l, ok := ref.LinInside(lo, hi, LL.S, R.band); ok && c17Span(f, l) > LL.allow() {
				w.Hit("lin-multiple-just-beyond-slack-outside")
			}
			f1, l1, ok1 := ref.LinInside(lo, hi, LL.S, -R.m2)
			f2, l2, ok2 := ref.LinInside(lo, hi, LL.S, -R.band)
			if ok1 && ok2 && c17Span(f1, l1) > c17Span(f2, l2) {
				w.Hit("lin-multiple-just-beyond-slack-inside")
			}
		}
	}
	if amb {
		w.Ambiguous()
	}
	h := mon.NewHasher().S("lin").F(mn).F(mx).I(c.Base).I(c.OMax).I(c.MinLevel).I(c.MaxLevel).I(c.Clamp)
	if p := c.Prev; p != nil {
		h = h.S(p.Hist).S(p.Assign).F(float64(p.Min)).F(float64(p.Max)).I(p.Base).I(p.OMax).I(p.MinLevel).I(p.MaxLevel)
	}
	if a := c.Alt; a != nil {
		h = h.S("alt").I(a.OMax).I(a.MinLevel).I(a.MaxLevel)
	}
	w.Distinct(h.Sum())

	// ---- Ticks
	var major, minor []float64
	w.Eval("Linear.Ticks")
	if p, v := mon.Call(func() { major, minor = sv.Ticks(o) }); p {
		w.Violate("ticks-panic", fmt.Sprintf("%v: Ticks panicked: %v", c, v), c.rec())
	} else if c17LinLaws(w, c, R, major, minor) {
		c17LinModel(w, c, R, major, minor, lLo, lHi, hasLo, hasHi)
	}
	if w.WantSample() {
		w.Sample(map[string]any{"case": c.String(), "major": mon.Fs(major), "minor_len": len(minor), "ref_level": lLo, "ref_feasible": hasLo})
	}

	// ---- CountTicks / TicksAtLevel around the chosen level
	centre := lLo
	if !hasLo {
		centre = R.natural(c.OMax) + 6
	}
	c17LinLevels(w, c, R, centre, sv, false)

	// ---- Nice
	c17LinNice(w, c, R, sv)

	// ---- the other TickOptions on the value that has answered all of that
	c17LinAlt(w, c, sv, "calls")
}

// c17LinAlt asks a scale value that has answered calls with the case's own
// TickOptions (after == "calls") or has been Nice'd in place with them
// (after == "nice") for Ticks with the case's OTHER options c.Alt, and for
// CountTicks/TicksAtLevel around the level those select, and judges the
// answers with a fresh reference for the fields the value has now.
func c17LinAlt(w *mon.W, c c17Case, sv *scale.Linear, after string) {
	if c.Alt == nil {
		return
	}
	lo, hi := math.Min(sv.Min, sv.Max), math.Max(sv.Min, sv.Max)
	if !(hi > lo) || !c17InLinDomain(lo, hi) {
		w.Note("lin-other-options-skipped-outside-domain")
		return
	}
	rc := c.rec()
	c2 := c17Case{Kind: "lin", Min: mon.F(sv.Min), Max: mon.F(sv.Max), Base: sv.Base, OMax: c.Alt.OMax, MinLevel: c.Alt.MinLevel, MaxLevel: c.Alt.MaxLevel, orig: &rc}
	if after == "nice" {
		c2.ctx = fmt.Sprintf(" [the value was Nice'd in place, it is what Nice made of %v]", c)
	} else {
		c2.ctx = fmt.Sprintf(" [the value answered Ticks, CountTicks and TicksAtLevel before, for %v]", c)
	}
	R := c17NewLinRef(lo, hi, sv.Base)
	R.mw = w
	if R.windowTooFine(c2.MinLevel, c2.MaxLevel) {
		w.Note("lin-skipped-level-window-beyond-1e15-ticks")
		return
	}
	lLo, lHi, hasLo, hasHi := R.search(c2.OMax, c2.MinLevel, c2.MaxLevel)
	l1, _, has1, _ := R.search(c.OMax, c.MinLevel, c.MaxLevel)
	if R.incomplete {
		w.Note("lin-skipped-unindexable")
		return
	}
	w.Hit("lin-other-options-after-" + after)
	// the level the case's own options select on these fields is not the
	// one the other options select
	w.HitIf(has1 != hasLo || (hasLo && l1 != lLo), "lin-other-options-after-"+after+"-select-another-level")
	var major, minor []float64
	w.Eval("Linear.Ticks(other options)")
	if p, v := mon.Call(func() { major, minor = sv.Ticks(c2.opts()) }); p {
		w.Violate("ticks-panic", fmt.Sprintf("%v: Ticks panicked: %v", c2, v), c2.rec())
	} else if c17LinLaws(w, c2, R, major, minor) {
		c17LinModel(w, c2, R, major, minor, lLo, lHi, hasLo, hasHi)
	}
	if hasLo {
		c17LinLevels(w, c2, R, lLo, sv, true)
	}
}

// c17LinModel: the major ticks must be the lattice of the lowest feasible
// level of the window and the minor ticks the lattice one level below.
func c17LinModel(w *mon.W, c c17Case, R *c17LinRef, major, minor []float64, lLo, lHi int, hasLo, hasHi bool) {
	lists := fmt.Sprintf("major=%s minor=%s", c17Fmt(major), c17Fmt(minor))
	if !hasLo {
		if len(major) != 0 {
			w.Violate("ticks-despite-unsatisfiable-limits", fmt.Sprintf("%v: no level of the window has <= Max ticks, but %s", c, lists), c.rec())
		}
		return
	}
	top := lHi
	if !hasHi {
		if len(major) == 0 {
			return // the window may be unsatisfiable (end ticks within the slack window)
		}
		top = lLo + 4
		if top > c.MaxLevel {
			top = c.MaxLevel
		}
	}
	for l := lLo; l <= top; l++ {
		if R.match(major, l) == "" && R.match(minor, l-1) == "" && (l == lLo || len(minor) > c.OMax) {
			return
		}
	}
	// diagnosis
	if why := R.match(major, lLo); why != "" {
		for l := lLo + 1; l <= lLo+6; l++ {
			if R.match(major, l) == "" && len(major) > 0 {
				w.Violate("ticks-not-finest-level", fmt.Sprintf("%v: major ticks are those of level %d, but level %d already fits: %s; %s", c, l, lLo, R.expect(lLo), lists), c.rec())
				return
			}
		}
		w.Violate("ticks-major-wrong", fmt.Sprintf("%v: %s; expected %s; %s", c, why, R.expect(lLo), lists), c.rec())
		return
	}
	w.Violate("ticks-minor-wrong", fmt.Sprintf("%v: minor ticks: %s; expected %s; %s", c, R.match(minor, lLo-1), R.expect(lLo-1), lists), c.rec())
}

// c17FarCount bounds the tick lists requested at the far finer levels.
const c17FarCount = 100000

// lowestWithin returns the lowest level whose lattice holds at most n ticks
// (allowed count), starting from a logarithm estimate.
func (R *c17LinRef) lowestWithin(n int64) (int, bool) {
	l := 2 * int(math.Ceil(math.Log(R.w/float64(n))/math.Log(R.eb())))
	for i := 0; i < 16 && R.at(l).ok && R.at(l).allow() > n; i++ {
		l++
	}
	for i := 0; i < 16 && R.at(l-1).ok && R.at(l-1).allow() <= n; i++ {
		l--
	}
	L := R.at(l)
	return l, L.ok && L.allow() <= n && R.at(l-1).ok && R.at(l-1).allow() > n
}

// matchLong is match for a long tick list: every tick is compared with its
// neighbour in float arithmetic (ascending, one spacing apart), the first and
// last three and 32 evenly spread ones with the exact lattice value, and the
// two ends with the mandatory and allowed index ranges.
func (R *c17LinRef) matchLong(got []float64, l int) string {
	L := R.at(l)
	if !L.ok || len(got) <= 3000 {
		return R.match(got, l)
	}
	tol := 1e-9*L.Sf + 8*R.ulpM
	for i, t := range got {
		if math.IsNaN(t) || math.IsInf(t, 0) {
			return fmt.Sprintf("tick[%d]=%v", i, t)
		}
		if i > 0 && !(math.Abs(t-got[i-1]-L.Sf) <= 2*tol) {
			return fmt.Sprintf("tick[%d]=%v follows %v: not one spacing %v apart", i, t, got[i-1], L.Sf)
		}
	}
	q := got[0] / L.Sf
	if !(math.Abs(q) < 1e15) {
		return fmt.Sprintf("tick %v is not a multiple of %v", got[0], L.Sf)
	}
	a := int64(math.Round(q))
	n := len(got)
	idx := []int{0, 1, 2, n - 3, n - 2, n - 1}
	for k := 1; k < 32; k++ {
		idx = append(idx, int(int64(k)*int64(n-1)/32))
	}
	for _, i := range idx {
		want := ref.LinTick(a+int64(i), L.S)
		if R.mw != nil {
			R.mw.Err("linear tick value vs n*spacing", math.Abs(got[i]-want), tol)
		}
		if !(math.Abs(got[i]-want) <= tol) {
			return fmt.Sprintf("tick[%d]=%v, expected %d*%v=%v (off by %.3g spacings)", i, got[i], a+int64(i), L.Sf, want, (got[i]-want)/L.Sf)
		}
	}
	return R.matchEnds(got, L, a)
}

// c17LinLevels judges CountTicks and TicksAtLevel on the levels around centre
// and on a few far ones: two finer levels with long tick lists (up to
// c17FarCount and about 6000 ticks) and three much coarser ones.
func c17LinLevels(w *mon.W, c c17Case, R *c17LinRef, centre int, sv *scale.Linear, light bool) {
	// the value under judgement with its ends in ascending order (the
	// levels of a reversed domain are not defined)
	s := *sv
	s.Min, s.Max = R.lo, R.hi
	var levels []int
	fine := map[int]bool{}
	for _, n := range []int64{c17FarCount, 6000} {
		if light {
			break
		}
		if l, ok := R.lowestWithin(n); ok && l < centre-3 && !fine[l] {
			fine[l] = true
			levels = append(levels, l)
		}
	}
	for l := centre - 3; l <= centre+4; l++ {
		levels = append(levels, l)
	}
	far := len(levels)
	levels = append(levels, centre+7, centre+19, centre+48)
	if light {
		// the level itself and the one below (the major and minor ticks)
		levels, far = []int{centre - 1, centre}, 2
	}
	prev, prevL, prevAmb, havePrev := 0, 0, false, false
	for k, l := range levels {
		L := R.at(l)
		if !L.ok {
			havePrev = false
			continue
		}
		w.HitIf(fine[l] && L.mand() > 4096, "lin-far-fine-level>4096-ticks")
		w.HitIf(k >= far, "lin-far-coarse-level")
		var cnt int
		w.Eval("Linear.CountTicks")
		if p, v := mon.Call(func() { cnt = s.CountTicks(l) }); p {
			w.Violate("countticks-panic", fmt.Sprintf("%v: CountTicks(%d) panicked: %v", c, l, v), c.rec())
			havePrev = false
			continue
		}
		if int64(cnt) < L.mand() || int64(cnt) > L.allow() {
			w.Violate("countticks-wrong", fmt.Sprintf("%v: CountTicks(%d)=%d; %s", c, l, cnt, R.expect(l)), c.rec())
		}
		if havePrev && cnt > prev && !prevAmb && !L.amb() {
			w.Violate("countticks-increasing", fmt.Sprintf("%v: CountTicks(%d)=%d > CountTicks(%d)=%d", c, l, cnt, prevL, prev), c.rec())
		}
		prev, prevL, prevAmb, havePrev = cnt, l, L.amb(), true
		if L.allow() > c17FarCount {
			continue // cannot happen: the levels above are chosen within the bound
		}
		var ts []float64
		w.Eval("Linear.TicksAtLevel")
		if p, v := mon.Call(func() { ts = s.TicksAtLevel(l).([]float64) }); p {
			w.Violate("ticksatlevel-panic", fmt.Sprintf("%v: TicksAtLevel(%d) panicked: %v", c, l, v), c.rec())
			continue
		}
		if len(ts) != cnt {
			w.Violate("count-ne-len", fmt.Sprintf("%v: CountTicks(%d)=%d but len(TicksAtLevel(%d))=%d", c, l, cnt, l, len(ts)), c.rec())
		}
		if why := R.matchLong(ts, l); why != "" {
			w.Violate("ticksatlevel-wrong", fmt.Sprintf("%v: TicksAtLevel(%d)=%s: %s; expected %s", c, l, c17Fmt(ts), why, R.expect(l)), c.rec())
		}
	}
}

func c17LinNice(w *mon.W, c c17Case, R *c17LinRef, sv *scale.Linear) {
	o := c.opts()
	limited := !(c.MinLevel == 0 && c.MaxLevel == 0)
	n1 := *sv
	w.Eval("Linear.Nice")
	if p, v := mon.Call(func() { n1.Nice(o) }); p {
		w.Violate("nice-panic", fmt.Sprintf("%v: Nice panicked: %v", c, v), c.rec())
		return
	}
	a1, b1 := math.Min(n1.Min, n1.Max), math.Max(n1.Min, n1.Max)
	after := fmt.Sprintf("[%v,%v]", n1.Min, n1.Max)
	if math.IsNaN(n1.Min) || math.IsNaN(n1.Max) || math.IsInf(n1.Min, 0) || math.IsInf(n1.Max, 0) {
		w.Violate("nice-non-finite", fmt.Sprintf("%v: Nice made the domain %s", c, after), c.rec())
		return
	}
	if !(a1 <= R.lo+R.m2) || !(b1 >= R.hi-R.m2) {
		msg := fmt.Sprintf("%v: Nice shrank the domain to %s (lower end moved in by %.3g widths, upper by %.3g)", c, after, (a1-R.lo)/R.w, (R.hi-b1)/R.w)
		w.Violate("nice-shrinks", msg, c.rec())
		return
	}
	// the other TickOptions on (a copy of) the value Nice'd in place
	n3 := n1
	c17LinAlt(w, c, &n3, "nice")
	if c.OMax < 3 {
		return
	}
	// is a level of the window feasible for the rounded-out domain?
	feasible, infeasible := true, false
	if limited {
		if c.MinLevel > c.MaxLevel {
			feasible, infeasible = false, true
		} else {
			S := ref.LinSpacing(c.Base, c.MaxLevel)
			f1, l1, ok1 := ref.LinOutside(R.lo, R.hi, S, -R.m2)
			f2, l2, ok2 := ref.LinOutside(R.lo, R.hi, S, R.m2)
			if !ok1 || !ok2 {
				return
			}
			feasible = c17Span(f1, l1) <= int64(c.OMax)
			infeasible = c17Span(f2, l2) > int64(c.OMax)
		}
	}
	w.HitIf(infeasible, "lin-nice-limits-unsatisfiable")
	w.HitIf(feasible, "lin-nice-max>=3")
	// idempotent
	n2 := n1
	w.Eval("Linear.Nice")
	if p, v := mon.Call(func() { n2.Nice(o) }); p {
		w.Violate("nice-panic", fmt.Sprintf("%v: second Nice on %s panicked: %v", c, after, v), c.rec())
		return
	}
	w1 := b1 - a1
	tol := 1e-9*w1 + 8*c17Ulp(math.Max(math.Abs(a1), math.Abs(b1)))
	if !(math.Abs(n2.Min-n1.Min) <= tol) || !(math.Abs(n2.Max-n1.Max) <= tol) {
		w.Violate("nice-not-idempotent", fmt.Sprintf("%v: Nice gave %s, Nice again [%v,%v]", c, after, n2.Min, n2.Max), c.rec())
	}
	if !feasible {
		return
	}
	var major []float64
	w.Eval("Linear.Ticks(after Nice)")
	if p, v := mon.Call(func() { major, _ = n1.Ticks(o) }); p {
		w.Violate("ticks-panic", fmt.Sprintf("%v: Ticks on the niced domain %s panicked: %v", c, after, v), c.rec())
		return
	}
	if len(major) < 2 || !(math.Abs(major[0]-a1) <= tol) || !(math.Abs(major[len(major)-1]-b1) <= tol) {
		w.Violate("nice-ends-not-ticks", fmt.Sprintf("%v: Nice gave %s but the major ticks there are %s", c, after, c17Fmt(major)), c.rec())
		return
	}
	S := (major[len(major)-1] - major[0]) / float64(len(major)-1)
	w.Err("linear Nice extension vs one major spacing", math.Max(R.lo-a1, b1-R.hi), S*(1+1e-9)+R.m2)
	if R.lo-a1 > S*(1+1e-9)+R.m2 || b1-R.hi > S*(1+1e-9)+R.m2 {
		w.Violate("nice-adds-more-than-one-spacing", fmt.Sprintf("%v: Nice gave %s with major spacing %v: extended by %.6g and %.6g spacings", c, after, S, (R.lo-a1)/S, (b1-R.hi)/S), c.rec())
	}
}

// ---------------------------------------------------------------------------
// Log

// Positions are u = log_base|x|. Level l >= 0 has ticks at u = E*n, E = 2^l;
// level -1 (only ever the minor level) has ticks k*base^d, k = 1..base-1,
// indexed id = d*(base-1) + k-1. Levels below 0 have no major ticks
// (CountTicks is "infinite" there), so the level window starts at 0.
type c17LogLevel struct {
	E              float64
	mf, ml, af, al int64
	ok             bool
}

func (L *c17LogLevel) mand() int64  { return c17Span(L.mf, L.ml) }
func (L *c17LogLevel) allow() int64 { return c17Span(L.af, L.al) }
func (L *c17LogLevel) amb() bool    { return L.mand() != L.allow() }

// c17LogSlack: a power of the (effective) base up to this fraction of the
// log-width outside the domain (plus the rounding allowance of the
// logarithms) may be a tick, and Nice may move an end inwards by it: twice
// the library's 1e-10, as for Linear.
const c17LogSlack = 2e-10

type c17LogRef struct {
	lo, hi     float64 // magnitudes, lo < hi
	neg        bool
	base       int
	lnB        float64
	ulo, uhi   *big.Float
	ulof, uhif float64
	W          float64
	mu, m2     float64 // mandatory / allowed margins in units of log_base
	band       float64 // 1e-9 of the log-width: outer edge of the hostile band beyond m2 (classes only)
	rho        float64 // m2 as a relative distance
	slackDom   bool
	lcap       int
	cache      map[int]*c17LogLevel
	incomplete bool
	w          *mon.W
}

func c17LogCap(base int) int {
	l := 0
	for !math.IsInf(math.Pow(float64(base), math.Pow(2, float64(l+1))), 0) {
		l++
	}
	return l
}

func c17NewLogRef(lo, hi float64, neg bool, base int) *c17LogRef {
	R := &c17LogRef{lo: lo, hi: hi, neg: neg, base: base, lnB: math.Log(float64(base)), cache: map[int]*c17LogLevel{}}
	R.ulo, R.uhi = ref.LogB(lo, base), ref.LogB(hi, base)
	R.ulof, R.uhif = ref.F64(R.ulo), ref.F64(R.uhi)
	R.W = ref.F64(ref.Sub(R.uhi, R.ulo))
	// dl bounds the error of any float64 evaluation of log(x)/log(b): a few
	// units in the last place of the position
	dl := 32 * 0x1p-52 * math.Max(math.Abs(R.ulof), math.Abs(R.uhif))
	// the library's slack is 1e-10 of the log-width. Where that is well above
	// rounding, a power of the base within rounding of an end must be a
	// tick; where rounding dominates (narrow domain far from 1), only powers
	// inside by more than rounding must be.
	R.slackDom = 1e-10*R.W >= 2*dl
	if R.slackDom {
		R.mu = dl
	} else {
		R.mu = -dl
	}
	R.m2 = c17LogSlack*R.W + dl
	R.band = 1e-9 * R.W
	// as a relative distance; never below a few ulp of the tick value itself
	R.rho = math.Max(math.Expm1(R.m2*R.lnB), 16*0x1p-52)
	R.lcap = c17LogCap(base)
	return R
}

func (R *c17LogRef) at(l int) *c17LogLevel {
	if L := R.cache[l]; L != nil {
		return L
	}
	L := &c17LogLevel{E: math.Pow(2, float64(l))}
	if l >= 0 && l <= R.lcap {
		var ok1, ok2 bool
		L.mf, L.ml, ok1 = ref.LogInside(R.ulo, R.uhi, L.E, R.mu)
		L.af, L.al, ok2 = ref.LogInside(R.ulo, R.uhi, L.E, R.m2)
		L.ok = ok1 && ok2
	}
	if !L.ok {
		R.incomplete = true
	}
	R.cache[l] = L
	return L
}

func (R *c17LogRef) search(max, minLevel, maxLevel int) (lLo, lHi int, hasLo, hasHi bool) {
	start, end := 0, R.lcap
	if !(minLevel == 0 && maxLevel == 0) {
		if minLevel > maxLevel {
			return
		}
		if minLevel > start {
			start = minLevel
		}
		if maxLevel > R.lcap {
			R.incomplete = true
		}
		if maxLevel < end {
			end = maxLevel
		}
	}
	for l := start; l <= end; l++ {
		L := R.at(l)
		if !L.ok {
			return
		}
		if !hasLo && L.mand() <= int64(max) {
			lLo, hasLo = l, true
		}
		if L.allow() <= int64(max) {
			lHi, hasHi = l, true
			return
		}
	}
	return
}

func (R *c17LogRef) minorVal(id int64) float64 {
	m := int64(R.base - 1)
	d := id / m
	k := id % m
	if k < 0 {
		k += m
		d--
	}
	return float64(k+1) * math.Pow(float64(R.base), float64(d))
}

// minorRange returns the mandatory and allowed id ranges of level -1.
func (R *c17LogRef) minorRange() (mf, ml, af, al int64) {
	m := int64(R.base - 1)
	id := (int64(math.Floor(R.ulof)) - 1) * m
	end := (int64(math.Ceil(R.uhif)) + 2) * m
	mf, af = math.MaxInt64, math.MaxInt64
	ml, al = math.MinInt64, math.MinInt64
	for ; id <= end; id++ {
		v := R.minorVal(id)
		if v >= R.lo*(1+1e-12) && v <= R.hi*(1-1e-12) {
			if id < mf {
				mf = id
			}
			ml = id
		}
		if v >= R.lo*(1-R.rho) && v <= R.hi*(1+R.rho) {
			if id < af {
				af = id
			}
			al = id
		}
	}
	if mf > ml {
		mf, ml = 0, -1
	}
	if af > al {
		af, al = 0, -1
	}
	if mf <= ml && (af > mf || al < ml) { // cannot happen: allowed contains mandatory
		af, al = mf, ml
	}
	return
}

func (R *c17LogRef) pos(t float64) float64 { return math.Log(t) / R.lnB }

func (R *c17LogRef) expect(l int) string {
	if l < 0 {
		mf, ml, af, al := R.minorRange()
		var xs []float64
		for id := mf; id <= ml && len(xs) < 30; id++ {
			xs = append(xs, R.minorVal(id))
		}
		return fmt.Sprintf("level -1 (k*%d^d, k=1..%d): %d inside the domain %s, %d optional near the ends", R.base, R.base-1, c17Span(mf, ml), c17Fmt(xs), c17Span(af, al)-c17Span(mf, ml))
	}
	L := R.at(l)
	var xs []float64
	for n := L.mf; n <= L.ml && len(xs) < 24; n++ {
		xs = append(xs, math.Pow(float64(R.base), L.E*float64(n)))
	}
	return fmt.Sprintf("level %d (powers of %d^%v): %d inside the domain %s, %d optional near the ends (magnitudes)", l, R.base, L.E, L.mand(), c17Fmt(xs), L.allow()-L.mand())
}

// match compares ascending magnitudes with the lattice of a level.
func (R *c17LogRef) match(got []float64, l int) string {
	var mf, ml, af, al int64
	idx := make([]int64, len(got))
	if l < 0 {
		mf, ml, af, al = R.minorRange()
		for i, t := range got {
			p := R.pos(t)
			d := math.Floor(p + 1e-9)
			kq := t / math.Pow(float64(R.base), d)
			k := math.Round(kq)
			if !(math.Abs(kq-k) <= 1e-9) || k < 1 || k > float64(R.base-1) {
				return fmt.Sprintf("tick[%d] has magnitude %v = %.12g * %d^%v: not k*base^d with k=1..%d", i, t, kq, R.base, d, R.base-1)
			}
			idx[i] = int64(d)*int64(R.base-1) + int64(k) - 1
		}
	} else {
		L := R.at(l)
		if !L.ok {
			return ""
		}
		mf, ml, af, al = L.mf, L.ml, L.af, L.al
		for i, t := range got {
			p := R.pos(t)
			n := math.Round(p / L.E)
			if R.w != nil {
				R.w.Err("log tick exponent vs multiple of 2^level", math.Abs(p-L.E*n), 1e-9+16*0x1p-52*math.Abs(p))
			}
			if !(math.Abs(p-L.E*n) <= 1e-9+16*0x1p-52*math.Abs(p)) {
				return fmt.Sprintf("tick[%d] has magnitude %v = %d^%.12g: the exponent is not an integer multiple of %v", i, t, R.base, p, L.E)
			}
			idx[i] = int64(n)
		}
	}
	for i := 1; i < len(idx); i++ {
		if idx[i] != idx[i-1]+1 {
			return fmt.Sprintf("magnitudes %v and %v are not neighbours on the level's lattice (indices %d, %d)", got[i-1], got[i], idx[i-1], idx[i])
		}
	}
	nm := c17Span(mf, ml)
	if len(got) == 0 {
		if nm > 0 {
			return fmt.Sprintf("no ticks, but %d lattice values lie inside the domain", nm)
		}
		return ""
	}
	a, b := idx[0], idx[len(idx)-1]
	if a < af || b > al {
		return fmt.Sprintf("magnitudes %v..%v reach outside the domain", got[0], got[len(got)-1])
	}
	if nm > 0 && (a > mf || b < ml) {
		return fmt.Sprintf("lattice indices %d..%d lie inside the domain but the ticks cover only %d..%d", mf, ml, a, b)
	}
	return ""
}

func c17Mags(ts []float64, neg bool) []float64 {
	out := make([]float64, len(ts))
	for i, t := range ts {
		if neg {
			out[len(ts)-1-i] = -t
		} else {
			out[i] = t
		}
	}
	return out
}

func c17LogLaws(w *mon.W, c c17Case, R *c17LogRef, major, minor []float64) bool {
	good := true
	bad := func(kind, msg string) {
		good = false
		w.Violate(kind, fmt.Sprintf("%v: %s; major=%s minor=%s", c, msg, c17Fmt(major), c17Fmt(minor)), c.rec())
	}
	if len(major) > c.OMax {
		bad("ticks-too-many", fmt.Sprintf("%d major ticks, Max is %d", len(major), c.OMax))
	}
	for name, ts := range map[string][]float64{"major": major, "minor": minor} {
		for i, t := range ts {
			if math.IsNaN(t) || math.IsInf(t, 0) || t == 0 || (t < 0) != R.neg {
				bad("ticks-non-finite", fmt.Sprintf("%s tick[%d]=%v is not a finite value of the domain's sign", name, i, t))
				return false
			}
			if i > 0 && !(ts[i-1] < t) {
				bad("ticks-not-ascending", fmt.Sprintf("%s tick[%d]=%v after %v", name, i, t, ts[i-1]))
				return false
			}
			if m := math.Abs(t); m < R.lo*(1-R.rho) || m > R.hi*(1+R.rho) {
				bad("ticks-outside-domain", fmt.Sprintf("%s tick %v is outside the domain by more than the tolerance (%.3g relative)", name, t, R.rho))
				break
			}
		}
		for i, t := range ts {
			m := math.Abs(t)
			p := R.pos(m)
			if name == "major" {
				if !(math.Abs(p-math.Round(p)) <= 1e-9+16*0x1p-52*math.Abs(p)) {
					bad("ticks-not-nice", fmt.Sprintf("major tick[%d]=%v = ±%d^%.12g is not a power of the base", i, t, R.base, p))
					break
				}
			} else {
				d := math.Floor(p + 1e-9)
				kq := m / math.Pow(float64(R.base), d)
				if !(math.Abs(kq-math.Round(kq)) <= 1e-9) {
					bad("ticks-not-nice", fmt.Sprintf("minor tick[%d]=%v = %.12g * %d^%v is not an integer multiple of a power of the base", i, t, kq, R.base, d))
					break
				}
			}
		}
	}
	// every major tick is also a minor tick. A major tick inside the closed
	// domain (lo <= |M| <= hi as float64s) is never excused, the ends
	// included; one strictly outside it (admitted by the slack) is. Only
	// where rounding of the logarithms exceeds the slack (narrow domain far
	// from 1) are the ticks within the tolerance of an end excused as well:
	// there the levels of the library disagree about an end tick.
	mj, mn := c17Mags(major, R.neg), c17Mags(minor, R.neg)
	j := 0
	for _, M := range mj {
		if M < R.lo || M > R.hi {
			continue
		}
		if !R.slackDom && (M <= R.lo*(1+R.rho) || M >= R.hi*(1-R.rho)) {
			continue
		}
		for j < len(mn) && mn[j] < M*(1-1e-9) {
			j++
		}
		if j >= len(mn) || math.Abs(mn[j]/M-1) > 1e-9 {
			bad("major-not-in-minor", fmt.Sprintf("major tick of magnitude %v is not among the minor ticks", M))
			break
		}
	}
	return good
}

// c17JudgeLog: as c17JudgeLin. CountTicks and TicksAtLevel of *Log have
// pointer receivers, so the calls of the first judgement act on the very value
// whose fields are then re-assigned.
func c17JudgeLog(w *mon.W, c c17Case) {
	first := c
	if c.Prev != nil {
		first = c.Prev.asCase("log")
		first.Clamp = c.Clamp
	}
	lg, err := scale.NewLog(float64(first.Min), float64(first.Max), first.Base)
	if err != nil {
		mn, mx := float64(first.Min), float64(first.Max)
		if first.Base >= 2 && !math.IsNaN(mn) && !math.IsNaN(mx) && !(math.Min(mn, mx) <= 0 && math.Max(mn, mx) >= 0) {
			w.Violate("newlog-error", fmt.Sprintf("%v: NewLog rejected an in-domain range: %v", first, err), c)
		}
		return
	}
	switch c.Clamp {
	case 1:
		lg.Clamp = true
	case 2:
		lg.SetClamp(true)
	}
	c17JudgeLogOn(w, first, &lg)
	if c.Prev == nil {
		return
	}
	if c.Prev.Hist == "nice" {
		mon.Call(func() { lg.Nice(first.opts()) })
		w.Hit("log-reused-scale-after-nice")
	} else {
		w.Hit("log-reused-scale-after-calls")
	}
	mn, mx := float64(c.Min), float64(c.Max)
	switch c.Prev.Assign {
	case "base":
		lg.Base = c.Base
	case "min":
		lg.Min = mn
	case "max":
		lg.Max = mx
	default:
		if mn > mx {
			mn, mx = mx, mn // as NewLog orders them
		}
		lg.Min, lg.Max, lg.Base = mn, mx, c.Base
		c17JudgeLogOn(w, c, &lg)
		return
	}
	// one field assigned: the case is the fields as the value has them now
	eff := c
	eff.Min, eff.Max, eff.Base = mon.F(lg.Min), mon.F(lg.Max), lg.Base
	eff.orig = &c
	if !(lg.Min < lg.Max) || !c17InLogDomain(math.Min(math.Abs(lg.Min), math.Abs(lg.Max)), math.Max(math.Abs(lg.Min), math.Abs(lg.Max))) || (lg.Min < 0) != (lg.Max < 0) {
		w.Note("log-one-field-assigned-outside-domain")
		return
	}
	w.Hit("log-reused-scale-only-" + c.Prev.Assign + "-assigned")
	c17JudgeLogOn(w, eff, &lg)
}

func c17JudgeLogOn(w *mon.W, c c17Case, lg *scale.Log) {
	mn, mx := float64(c.Min), float64(c.Max)
	if mn > mx {
		mn, mx = mx, mn
	}
	if !(mn < mx) || (mn <= 0 && mx >= 0) || math.IsInf(mn, 0) || math.IsInf(mx, 0) || c.Base < 2 || c.OMax < 1 {
		return
	}
	neg := mn < 0
	lo, hi := mn, mx
	if neg {
		lo, hi = -mx, -mn
	}
	o := c.opts()
	R := c17NewLogRef(lo, hi, neg, c.Base)
	R.w = w
	limited := !(c.MinLevel == 0 && c.MaxLevel == 0)
	lLo, lHi, hasLo, hasHi := R.search(c.OMax, c.MinLevel, c.MaxLevel)
	if R.incomplete {
		w.Note("log-skipped-level-beyond-float-range")
		return
	}
	straddle := lo < 1 && hi > 1
	w.HitIf(c.OMax <= 2 && straddle, "log-max<=2-straddling-1")
	w.HitIf(c.OMax <= 2 && !straddle, "log-max<=2")
	w.HitIf(neg, "log-negative-domain")
	w.HitIf(c.Clamp != 0, "log-clamp-set")
	w.HitIf(!R.slackDom, "log-rounding-dominated")
	w.HitIf(R.W > 100, "log-span>100-decades-of-base")
	w.HitIf(R.W < 1, "log-span<1-power")
	w.Note(fmt.Sprintf("log-base-%d", c.Base))
	if limited {
		uLo, _, uHas, _ := R.search(c.OMax, 0, 0)
		switch {
		case !hasLo:
			w.Hit("log-limits-unsatisfiable")
			w.Hit("level-limits-binding")
		case uHas && lLo != uLo:
			w.Hit("log-minlevel-binding")
			w.Hit("level-limits-binding")
		default:
			w.Note("log-limits-not-binding")
		}
	}
	amb := false
	if hasLo {
		L := R.at(lLo)
		amb = L.amb() || !hasHi || lHi != lLo
		if lLo >= 1 {
			amb = amb || R.at(lLo-1).amb()
		} else {
			mf, ml, af, al := R.minorRange()
			amb = amb || c17Span(mf, ml) != c17Span(af, al)
			w.Hit("log-minor-level--1")
			w.HitIf(c.Clamp != 0, "log-clamp-set-minor-level--1")
		}
		w.HitIf(lLo >= 1, "log-level>=1")
		w.HitIf(lLo >= 3, "log-level>=3")
		w.HitIf(L.allow() == 0, "log-empty-major")
		w.HitIf(L.mand() == int64(c.OMax), "log-count-equals-max")
		w.HitIf(amb, "log-end-within-slack-window")
		pl, ph := R.ulof/L.E, R.uhif/L.E
		w.HitIf(math.Abs(pl-math.Round(pl)) < 1e-12 || math.Abs(ph-math.Round(ph)) < 1e-12, "log-tick-on-end")
		// a power of the level's effective base is an end of the closed
		// domain bit for bit: that major tick must be among the minor ticks
		bf := float64(c.Base)
		w.HitIf(R.slackDom && (math.Pow(bf, L.E*math.Round(pl)) == lo || math.Pow(bf, L.E*math.Round(ph)) == hi), "log-major-power-bitwise-on-end")
		// hostile band: a power of the major or minor level's effective base
		// lies beyond the allowed slack but within 1e-9 of the log-width of an
		// end, outside the domain (it must not be a tick) or inside it (Nice
		// must not round the end inwards to it)
		for _, ll := range []int{lLo, lLo - 1} {
			if ll < 0 {
				continue
			}
			LL := R.at(ll)
			if f, l, ok := ref.LogInside(R.ulo, R.uhi, LL.E, R.band); ok && LL.ok && R.band > R.m2 && c17Span(f, l) > LL.allow() {
				w.Hit("log-power-just-beyond-slack-outside")
			}
			f1, l1, ok1 := ref.LogInside(R.ulo, R.uhi, LL.E, -R.m2)
			f2, l2, ok2 := ref.LogInside(R.ulo, R.uhi, LL.E, -R.band)
			if ok1 && ok2 && R.band > R.m2 && c17Span(f1, l1) > c17Span(f2, l2) {
				w.Hit("log-power-just-beyond-slack-inside")
			}
		}
	}
	if amb {
		w.Ambiguous()
	}
	h := mon.NewHasher().S("log").F(mn).F(mx).I(c.Base).I(c.OMax).I(c.MinLevel).I(c.MaxLevel).I(c.Clamp)
	if p := c.Prev; p != nil {
		h = h.S(p.Hist).S(p.Assign).F(float64(p.Min)).F(float64(p.Max)).I(p.Base).I(p.OMax).I(p.MinLevel).I(p.MaxLevel)
	}
	if a := c.Alt; a != nil {
		h = h.S("alt").I(a.OMax).I(a.MinLevel).I(a.MaxLevel)
	}
	w.Distinct(h.Sum())

	// ---- Ticks
	var major, minor []float64
	w.Eval("Log.Ticks")
	if p, v := mon.Call(func() { major, minor = lg.Ticks(o) }); p {
		w.Violate("ticks-panic", fmt.Sprintf("%v: Ticks panicked: %v", c, v), c.rec())
	} else if c17LogLaws(w, c, R, major, minor) {
		c17LogModel(w, c, R, major, minor, lLo, lHi, hasLo, hasHi)
	}
	if w.WantSample() {
		w.Sample(map[string]any{"case": c.String(), "major": mon.Fs(major), "minor_len": len(minor), "ref_level": lLo, "ref_feasible": hasLo})
	}

	// ---- CountTicks / TicksAtLevel, every level from 0 to the last one
	// whose effective base is finite (far coarser than the chosen one)
	c17LogLevels(w, c, R, lg, 0, R.lcap, lLo, hasLo)

	c17LogNice(w, c, R, *lg)

	// ---- the other TickOptions on the value that has answered all of that
	c17LogAlt(w, c, lg, "calls")
}

// c17LogAlt: as c17LinAlt.
func c17LogAlt(w *mon.W, c c17Case, lg *scale.Log, after string) {
	if c.Alt == nil {
		return
	}
	mn, mx := lg.Min, lg.Max
	neg := mn < 0
	lo, hi := mn, mx
	if neg {
		lo, hi = -mx, -mn
	}
	if !(mn < mx) || (mn <= 0 && mx >= 0) || !c17InLogDomain(lo, hi) || lg.Base < 2 {
		w.Note("log-other-options-skipped-outside-domain")
		return
	}
	rc := c.rec()
	c2 := c17Case{Kind: "log", Min: mon.F(mn), Max: mon.F(mx), Base: lg.Base, OMax: c.Alt.OMax, MinLevel: c.Alt.MinLevel, MaxLevel: c.Alt.MaxLevel, orig: &rc}
	if after == "nice" {
		c2.ctx = fmt.Sprintf(" [the value was Nice'd in place, it is what Nice made of %v]", c)
	} else {
		c2.ctx = fmt.Sprintf(" [the value answered Ticks, CountTicks and TicksAtLevel before, for %v]", c)
	}
	R := c17NewLogRef(lo, hi, neg, lg.Base)
	R.w = w
	lLo, lHi, hasLo, hasHi := R.search(c2.OMax, c2.MinLevel, c2.MaxLevel)
	l1, _, has1, _ := R.search(c.OMax, c.MinLevel, c.MaxLevel)
	if R.incomplete {
		w.Note("log-skipped-level-beyond-float-range")
		return
	}
	w.Hit("log-other-options-after-" + after)
	w.HitIf(has1 != hasLo || (hasLo && l1 != lLo), "log-other-options-after-"+after+"-select-another-level")
	var major, minor []float64
	w.Eval("Log.Ticks(other options)")
	if p, v := mon.Call(func() { major, minor = lg.Ticks(c2.opts()) }); p {
		w.Violate("ticks-panic", fmt.Sprintf("%v: Ticks panicked: %v", c2, v), c2.rec())
	} else if c17LogLaws(w, c2, R, major, minor) {
		c17LogModel(w, c2, R, major, minor, lLo, lHi, hasLo, hasHi)
	}
	if hasLo {
		c17LogLevels(w, c2, R, lg, lLo, lLo+1, lLo, hasLo)
	}
}

// c17LogLevels judges CountTicks and TicksAtLevel on the levels from..to.
func c17LogLevels(w *mon.W, c c17Case, R *c17LogRef, lg *scale.Log, from, to, lLo int, hasLo bool) {
	neg := R.neg
	if to > R.lcap {
		to = R.lcap
	}
	prev, prevAmb, havePrev := 0, false, false
	for l := from; l <= to; l++ {
		L := R.at(l)
		if !L.ok {
			break
		}
		w.HitIf(hasLo && l > lLo+3, "log-far-coarse-level")
		var cnt int
		w.Eval("Log.CountTicks")
		if p, v := mon.Call(func() { cnt = lg.CountTicks(l) }); p {
			w.Violate("countticks-panic", fmt.Sprintf("%v: CountTicks(%d) panicked: %v", c, l, v), c.rec())
			havePrev = false
			continue
		}
		if int64(cnt) < L.mand() || int64(cnt) > L.allow() {
			w.Violate("countticks-wrong", fmt.Sprintf("%v: CountTicks(%d)=%d; %s", c, l, cnt, R.expect(l)), c.rec())
		}
		if havePrev && cnt > prev && !prevAmb && !L.amb() {
			w.Violate("countticks-increasing", fmt.Sprintf("%v: CountTicks(%d)=%d > CountTicks(%d)=%d", c, l, cnt, l-1, prev), c.rec())
		}
		prev, prevAmb, havePrev = cnt, L.amb(), true
		var ts []float64
		w.Eval("Log.TicksAtLevel")
		if p, v := mon.Call(func() { ts = lg.TicksAtLevel(l).([]float64) }); p {
			w.Violate("ticksatlevel-panic", fmt.Sprintf("%v: TicksAtLevel(%d) panicked: %v", c, l, v), c.rec())
			continue
		}
		if len(ts) != cnt {
			w.Violate("count-ne-len", fmt.Sprintf("%v: CountTicks(%d)=%d but len(TicksAtLevel(%d))=%d", c, l, cnt, l, len(ts)), c.rec())
		}
		okList := true
		for i, t := range ts {
			if math.IsNaN(t) || t == 0 || math.IsInf(t, 0) || (t < 0) != neg || (i > 0 && !(ts[i-1] < t)) {
				okList = false
				w.Violate("ticksatlevel-wrong", fmt.Sprintf("%v: TicksAtLevel(%d)=%s is not an ascending list of finite values of the domain's sign", c, l, c17Fmt(ts)), c.rec())
				break
			}
		}
		if okList {
			if why := R.match(c17Mags(ts, neg), l); why != "" {
				w.Violate("ticksatlevel-wrong", fmt.Sprintf("%v: TicksAtLevel(%d)=%s: %s; expected %s", c, l, c17Fmt(ts), why, R.expect(l)), c.rec())
			}
		}
	}
}

func c17LogModel(w *mon.W, c c17Case, R *c17LogRef, major, minor []float64, lLo, lHi int, hasLo, hasHi bool) {
	lists := fmt.Sprintf("major=%s minor=%s", c17Fmt(major), c17Fmt(minor))
	if !hasLo {
		if len(major) != 0 {
			w.Violate("ticks-despite-unsatisfiable-limits", fmt.Sprintf("%v: no level of the window has <= Max ticks, but %s", c, lists), c.rec())
		}
		return
	}
	top := lHi
	if !hasHi {
		if len(major) == 0 {
			return
		}
		top = lLo + 4
		if top > c.MaxLevel {
			top = c.MaxLevel
		}
		if top > R.lcap {
			top = R.lcap
		}
	}
	mj, mn := c17Mags(major, R.neg), c17Mags(minor, R.neg)
	for l := lLo; l <= top; l++ {
		if R.match(mj, l) == "" && R.match(mn, l-1) == "" && (l == lLo || len(minor) > c.OMax) {
			return
		}
	}
	if why := R.match(mj, lLo); why != "" {
		for l := lLo + 1; l <= lLo+6 && l <= R.lcap; l++ {
			if len(mj) > 0 && R.match(mj, l) == "" {
				w.Violate("ticks-not-finest-level", fmt.Sprintf("%v: major ticks are those of level %d, but level %d already fits: %s; %s", c, l, lLo, R.expect(lLo), lists), c.rec())
				return
			}
		}
		w.Violate("ticks-major-wrong", fmt.Sprintf("%v: %s; expected %s; %s", c, why, R.expect(lLo), lists), c.rec())
		return
	}
	w.Violate("ticks-minor-wrong", fmt.Sprintf("%v: minor ticks: %s; expected %s; %s", c, R.match(mn, lLo-1), R.expect(lLo-1), lists), c.rec())
}

func c17LogNice(w *mon.W, c c17Case, R *c17LogRef, lg scale.Log) {
	o := c.opts()
	limited := !(c.MinLevel == 0 && c.MaxLevel == 0)
	n1 := lg
	w.Eval("Log.Nice")
	if p, v := mon.Call(func() { n1.Nice(o) }); p {
		w.Violate("nice-panic", fmt.Sprintf("%v: Nice panicked: %v", c, v), c.rec())
		return
	}
	after := fmt.Sprintf("[%v,%v]", n1.Min, n1.Max)
	a, b := math.Min(n1.Min, n1.Max), math.Max(n1.Min, n1.Max)
	if math.IsNaN(a) || math.IsNaN(b) || math.IsInf(a, 0) || math.IsInf(b, 0) || (a <= 0 && b >= 0) {
		w.Violate("nice-non-finite", fmt.Sprintf("%v: Nice made the domain %s (not a finite range excluding 0)", c, after), c.rec())
		return
	}
	a1, b1 := a, b
	if R.neg {
		a1, b1 = -b, -a
	}
	if (b < 0) != R.neg || !(a1 <= R.lo*(1+R.rho)) || !(b1 >= R.hi*(1-R.rho)) {
		w.Violate("nice-shrinks", fmt.Sprintf("%v: Nice shrank the domain to %s", c, after), c.rec())
		return
	}
	// the other TickOptions on (a copy of) the value Nice'd in place
	n3 := n1
	c17LogAlt(w, c, &n3, "nice")
	if c.OMax < 3 {
		return
	}
	feasible, infeasible := true, false
	if limited {
		if c.MinLevel > c.MaxLevel || c.MaxLevel < 0 {
			feasible, infeasible = false, true
		} else {
			E := math.Pow(2, float64(c.MaxLevel))
			f1, l1, ok1 := ref.LogOutside(R.ulo, R.uhi, E, -R.m2)
			f2, l2, ok2 := ref.LogOutside(R.ulo, R.uhi, E, R.m2)
			if !ok1 || !ok2 {
				return
			}
			feasible = c17Span(f1, l1) <= int64(c.OMax)
			infeasible = c17Span(f2, l2) > int64(c.OMax)
		}
	}
	w.HitIf(infeasible, "log-nice-limits-unsatisfiable")
	w.HitIf(feasible, "log-nice-max>=3")
	n2 := n1
	w.Eval("Log.Nice")
	if p, v := mon.Call(func() { n2.Nice(o) }); p {
		w.Violate("nice-panic", fmt.Sprintf("%v: second Nice on %s panicked: %v", c, after, v), c.rec())
		return
	}
	u1a, u1b := R.pos(a1), R.pos(b1)
	tolR := 1e-9*R.lnB*math.Max(1, u1b-u1a) + 1e-12
	rel := func(x, y float64) float64 { return math.Abs(x/y - 1) }
	if !(rel(n2.Min, n1.Min) <= tolR) || !(rel(n2.Max, n1.Max) <= tolR) {
		w.Violate("nice-not-idempotent", fmt.Sprintf("%v: Nice gave %s, Nice again [%v,%v]", c, after, n2.Min, n2.Max), c.rec())
	}
	if !feasible {
		return
	}
	var major []float64
	w.Eval("Log.Ticks(after Nice)")
	if p, v := mon.Call(func() { major, _ = n1.Ticks(o) }); p {
		w.Violate("ticks-panic", fmt.Sprintf("%v: Ticks on the niced domain %s panicked: %v", c, after, v), c.rec())
		return
	}
	if len(major) < 2 || !(rel(major[0], a) <= tolR) || !(rel(major[len(major)-1], b) <= tolR) {
		w.Violate("nice-ends-not-ticks", fmt.Sprintf("%v: Nice gave %s but the major ticks there are %s", c, after, c17Fmt(major)), c.rec())
		return
	}
	E := math.Abs(R.pos(math.Abs(major[len(major)-1]))-R.pos(math.Abs(major[0]))) / float64(len(major)-1)
	w.Err("log Nice extension vs one major spacing", math.Max(R.ulof-u1a, u1b-R.uhif), E*(1+1e-9)+R.m2)
	if R.ulof-u1a > E*(1+1e-9)+R.m2 || u1b-R.uhif > E*(1+1e-9)+R.m2 {
		w.Violate("nice-adds-more-than-one-spacing", fmt.Sprintf("%v: Nice gave %s, major ticks are %d^%v apart: extended by %.6g and %.6g spacings", c, after, c.Base, E, (R.ulof-u1a)/E, (u1b-R.uhif)/E), c.rec())
	}
}

// ---------------------------------------------------------------------------
// Workload

var c17LinBases = []int{0, 2, 3, 5, 10, 16}
var c17LogBases = []int{2, 3, 5, 10, 16}

func c17PickMax(rng *mon.Rand) int {
	switch rng.Intn(5) {
	case 0:
		return rng.Range(1, 2)
	case 1:
		return rng.Range(3, 5)
	default:
		return rng.Range(1, 20)
	}
}

// c17Limits draws level limits relative to the unconstrained answer lU:
// none, binding from below, unsatisfiable, containing, exact, inverted.
func c17Limits(rng *mon.Rand, lU int, kind int) (minLevel, maxLevel int) {
	switch kind {
	case 1: // MinLevel above the unconstrained answer
		minLevel = lU + rng.Range(1, 4)
		maxLevel = minLevel + rng.Range(0, 6)
	case 2: // window entirely below it
		maxLevel = lU - rng.Range(1, 3)
		minLevel = maxLevel - rng.Range(0, 5)
	case 3: // contains it
		minLevel = lU - rng.Range(0, 5)
		maxLevel = lU + rng.Range(0, 5)
	case 4: // exactly it
		minLevel, maxLevel = lU, lU
	case 5: // inverted
		minLevel = lU + rng.Range(1, 3)
		maxLevel = lU - rng.Range(0, 3)
	case 6: // far away on either side
		minLevel = lU + rng.PickI(-20, -12, 12, 30)
		maxLevel = minLevel + rng.Range(0, 8)
	}
	return
}

func c17LimitKind(rng *mon.Rand) int {
	if rng.Bool() {
		return 0
	}
	return rng.Range(1, 6)
}

func c17LinCase(rng *mon.Rand, lo, hi float64) c17Case {
	c := c17Case{Kind: "lin", Min: mon.F(lo), Max: mon.F(hi), Base: c17LinBases[rng.Intn(len(c17LinBases))], OMax: c17PickMax(rng)}
	return c
}

func c17LinFinish(rng *mon.Rand, c c17Case) c17Case {
	lo, hi := float64(c.Min), float64(c.Max)
	if k := c17LimitKind(rng); k != 0 && hi > lo {
		R := c17NewLinRef(lo, hi, c.Base)
		lU, _, has, _ := R.search(c.OMax, 0, 0)
		if has {
			c.MinLevel, c.MaxLevel = c17Limits(rng, lU, k)
		}
	}
	if rng.Intn(7) == 0 {
		c.Min, c.Max = c.Max, c.Min
	}
	c.Clamp = rng.PickI(0, 0, 1, 2)
	if rng.Bool() && hi > lo {
		c.Alt = c17AltOpts(rng, c, func(max int) (int, bool) {
			lU, _, has, _ := c17NewLinRef(lo, hi, c.Base).search(max, 0, 0)
			return lU, has
		}, 1<<30)
	}
	return c
}

// c17AltOpts draws the other TickOptions of a case: another Max (half the
// time a much smaller or larger one) and, a third of the time, level limits
// relative to the level that Max selects without limits (lU).
func c17AltOpts(rng *mon.Rand, c c17Case, lU func(max int) (int, bool), lcap int) *c17Opts {
	a := &c17Opts{OMax: c17PickMax(rng)}
	switch rng.Intn(4) {
	case 0:
		a.OMax = rng.Range(1, 3)
	case 1:
		a.OMax = rng.Range(12, 20)
	}
	if a.OMax == c.OMax {
		a.OMax = a.OMax%20 + 1
	}
	if rng.Intn(3) == 0 {
		if l, has := lU(a.OMax); has {
			mn, mx := c17Limits(rng, l, rng.Range(1, 5))
			if mx <= lcap {
				a.MinLevel, a.MaxLevel = mn, mx
			}
		}
	}
	return a
}

// c17InLinDomain: the statement's domain for the Linear laws.
func c17InLinDomain(lo, hi float64) bool {
	w := hi - lo
	return w >= 1e-9 && w <= 1e9 && math.Abs((lo+hi)/2) <= 1e3*w
}

func c17LogFinish(rng *mon.Rand, c c17Case) c17Case {
	lo, hi := float64(c.Min), float64(c.Max)
	if k := c17LimitKind(rng); k != 0 && k != 6 {
		R := c17NewLogRef(lo, hi, false, c.Base)
		lU, _, has, _ := R.search(c.OMax, 0, 0)
		if has {
			mn, mx := c17Limits(rng, lU, k)
			if mx <= R.lcap {
				c.MinLevel, c.MaxLevel = mn, mx
			}
		}
	}
	if rng.Intn(3) == 0 {
		c.Min, c.Max = -c.Max, -c.Min
	}
	c.Clamp = rng.PickI(0, 0, 1, 2)
	if rng.Bool() {
		c.Alt = c17AltOpts(rng, c, func(max int) (int, bool) {
			lU, _, has, _ := c17NewLogRef(lo, hi, false, c.Base).search(max, 0, 0)
			return lU, has
		}, c17LogCap(c.Base))
	}
	return c
}

// c17FixedAlt: the other options of a fixed case with Max m: Max m+7 (mod 20),
// for every fifth m with the level window [2,2].
func c17FixedAlt(m int) *c17Opts {
	a := &c17Opts{OMax: (m+6)%20 + 1}
	if m%5 == 0 {
		a.MinLevel, a.MaxLevel = 2, 2
	}
	return a
}

func c17InLogDomain(lo, hi float64) bool {
	return lo >= 1e-100 && hi <= 1e100 && hi > lo
}

func c17Run(r *mon.Run) {
	r.Rule("FindLevel: every non-increasing step count function with <=3 steps on levels -6..6 (thorough -8..8) x Max x every (MinLevel,MaxLevel) window incl. (0,0)=unlimited and inverted ones x every guess, judged against a linear scan, CountTicks calls budgeted; sampled step functions with the count values scaled by 1, 1e2, 1e4, MaxInt/8 (per function or per value) x Max in 1..20, next to every value and a hundredth of it, up to MaxInt; all step functions with breakpoints at levels out to +-1000 under no limits and wide windows. Linear/Log: random, snapped-to-tick, near-slack and fixed domains x bases x Max 1..20 x level limits; each case judges Ticks (laws + lattice model; Linear: a multiple of the spacing up to 2e-10 of the width + 8 ulp outside an end is optional, Log: a power of the base up to 2e-10 of the log-width + the rounding allowance of the logarithms outside an end is optional), CountTicks/TicksAtLevel around the chosen level and on far levels (Linear: two finer levels with up to 100000 and ~6000 ticks, long lists judged pairwise + first/last/32 sampled exact values, three far coarser levels; Log: every level up to the last finite effective base), Nice, Nice twice and Ticks after Nice. Reused scale values: a first domain is judged on a value (and optionally Nice'd in place), then Min/Max/Base are assigned a second domain and everything is judged again on the same value; one-field variants assign only Base, only Min or only Max and judge with the reference of the fields as the value then has them. About half the cases set Clamp (by field or SetClamp) before the first call. About half the cases carry a second TickOptions value (other Max, a third with a level window): Ticks and CountTicks/TicksAtLevel at the selected level are asked with it of the value that answered the calls above, and of a copy Nice'd in place with the first options, and judged with a fresh reference for the fields the value then has. Non-trivial = hits a class; distinct by hash of the case.")
	r.Assume("Linear laws on the statement's domain: width 1e-9..1e9, |centre|/width <= 1e3; Log domains within 1e-100..1e100",
		"a multiple of the spacing within 4 ulp of a domain end counts as inside (the repo's own tests pin the end ticks); within 2e-10 of the width + 8 ulp outside it is optional (the statement names the library's 1e-10 slack as the tolerance), and Nice may move an end inwards by at most that",
		"Log: a major tick inside the closed domain [Min,Max] as float64s (ends included) must be among the minor ticks to 1e-9 relative; one strictly outside (admitted by the slack) is excused, and so are ticks within the tolerance of an end where rounding of the logarithm exceeds the 1e-10 slack (narrow domain far from 1: there the unchanged library's levels disagree about an end tick, e.g. base 3 [3^e(1-1e-5), 3^e] with MinLevel 1)",
		"Log levels below 0 have no major ticks (CountTicks = MaxInt there by design): CountTicks==len(TicksAtLevel) is asserted for levels >= 0 only; Log level limits stay where Base^(2^level) is finite",
		"Log: a power of the (effective) base within 2e-10 of the log-width + 32 ulp of the larger |log_base| position outside an end is optional, and Nice may move an end inwards by at most that (twice the library's 1e-10 slack, as for Linear); level -1 minor ticks are judged on their float64 values with the same relative window",
		"the domain of a scale is whatever its exported Min/Max/Base fields say at the time of the call: assigning them on a value that has answered calls before must behave like a fresh value",
		"ticks do not depend on the Clamp field (it only confines Map's output), nor on TickOptions given to earlier calls or to Nice: Ticks(o2) on a value Nice'd with o1 is judged as Ticks(o2) of a fresh value with the niced Min/Max/Base",
		"Linear level windows whose coarsest level holds more than 1e15 ticks are outside the explored range (generated windows stay within 30 levels of the level that fits; a window drawn for one domain can land there once Nice has widened the value by many orders of magnitude): there the tick count of the finer levels leaves the int range and the unchanged library's Ticks panics in makeslice",
		"FindLevel with no level limit and every level feasible has no lowest level: any feasible level is accepted",
		"FindLevel with no level limits is explored with count functions whose steps lie within levels -1000..1000; answers beyond +-1000 levels are outside the explored range")
	r.Gate("lin-max<=2-straddling-0", "log-max<=2-straddling-1", "level-limits-binding", "fl-unsatisfiable", "log-negative-domain",
		"lin-limits-unsatisfiable", "lin-minlevel-binding", "log-limits-unsatisfiable", "log-minlevel-binding",
		"lin-reversed-domain", "lin-tick-exactly-on-end", "log-tick-on-end", "lin-5x-level", "lin-negative-odd-level",
		"log-level>=1", "log-minor-level--1", "lin-nice-max>=3", "log-nice-max>=3", "lin-centre-0", "fl-minlevel-binding",
		"fl-guess-outside-window", "fl-guess-above-answer", "fl-guess-below-answer",
		"lin-multiple-just-beyond-slack-outside", "lin-multiple-just-beyond-slack-inside", "lin-far-fine-level>4096-ticks",
		"lin-far-coarse-level", "log-far-coarse-level", "log-major-power-bitwise-on-end",
		"fl-count-drops-from>100x-max-at-answer", "fl-count-drops-from>100x-max-at-maxlevel", "fl-max>20", "fl-count>=maxint/8",
		"fl-unlimited-answer-above-100", "fl-unlimited-answer-below--100",
		"lin-reused-scale-after-calls", "lin-reused-scale-after-nice", "log-reused-scale-after-calls", "log-reused-scale-after-nice",
		"log-power-just-beyond-slack-outside", "log-power-just-beyond-slack-inside",
		"lin-clamp-set", "log-clamp-set", "log-clamp-set-minor-level--1",
		"lin-other-options-after-calls", "log-other-options-after-calls",
		"lin-other-options-after-nice-select-another-level", "log-other-options-after-nice-select-another-level",
		"lin-reused-scale-only-base-assigned", "lin-reused-scale-only-min-assigned", "lin-reused-scale-only-max-assigned",
		"log-reused-scale-only-base-assigned", "log-reused-scale-only-min-assigned", "log-reused-scale-only-max-assigned")
	if err := ref.C17SelfTest(); err != nil {
		r.Inconclusive("reference self-test failed: " + err.Error())
		return
	}

	// ---- FindLevel, exhaustive
	lv := r.Pick(6, 8)
	vmax := r.Pick(6, 7)
	maxMax := r.Pick(5, 6)
	gl := r.Pick(8, 10)
	fs := c17StepFuncs(-lv, lv, vmax, 3)
	r.Exhaustive(fmt.Sprintf("FindLevel: all %d non-increasing step functions (<=3 steps at levels %d..%d, values 0..%d) x Max 1..%d x all windows MinLevel,MaxLevel in %d..%d (incl. unlimited, inverted) x all guesses %d..%d", len(fs), -lv, lv, vmax, maxMax, -gl, gl, -gl, gl))
	extreme := []int{math.MinInt, math.MaxInt, -1000, 1000, -1001, 1001, -1000000, 1000000}
	r.Parallel("findlevel-exhaustive", len(fs), func(w *mon.W, i int) {
		var st c17FLStats
		c := c17Case{Kind: "fl", Vals: fs[i][0], Brk: fs[i][1]}
		tk := &c17StepTicker{vals: c.Vals, brk: c.Brk}
		for c.OMax = 1; c.OMax <= maxMax; c.OMax++ {
			for mn := -gl; mn <= gl+1; mn++ {
				for mx := -gl; mx <= gl; mx++ {
					c.MinLevel, c.MaxLevel = mn, mx
					if mn == gl+1 {
						if mx != -gl {
							break
						}
						c.MinLevel, c.MaxLevel = 0, 0
					} else if mn == 0 && mx == 0 {
						continue // that pair means unlimited, done once
					}
					for c.Guess = -gl; c.Guess <= gl; c.Guess++ {
						c17JudgeFL(w, &c, &st, tk)
					}
					if mn == gl+1 || (mn+mx+i)%37 == 0 {
						for _, g := range extreme {
							c.Guess = g
							c17JudgeFL(w, &c, &st, tk)
						}
					}
				}
			}
		}
		st.flush(w)
		w.Distinct(mon.NewHasher().S("fl").Is(c.Vals).Is(c.Brk).Sum())
		if i%4001 == 0 && w.WantSample() {
			w.Sample(map[string]any{"findlevel_function": map[string]any{"vals": c.Vals, "breaks": c.Brk}, "calls": st.n, "max_CountTicks_calls_in_one_search": st.maxCalls})
		}
	})

	// ---- FindLevel, sampled: the count VALUES scaled. The enumeration above
	// keeps counts and Max in 0..7; here the values of a step function are
	// multiplied by 1, 1e2, 1e4 or MaxInt/8 (one factor for the whole
	// function, or one per value so that the count falls by orders of
	// magnitude within one level), Max runs over 1..20, the neighbours of the
	// values and of a hundredth of them, and huge numbers.
	scales := []int{1, 100, 10000, math.MaxInt / 8}
	nsc := r.Pick(2500, 40000)
	r.Parallel("findlevel-scaled", nsc, func(w *mon.W, i int) {
		rng := w.Rng
		var st c17FLStats
		c := c17Case{Kind: "fl"}
		if i%2 == 0 {
			f := fs[rng.Intn(len(fs))]
			sc := scales[1+rng.Intn(len(scales)-1)]
			c.Brk = f[1]
			for _, v := range f[0] {
				c.Vals = append(c.Vals, v*sc)
			}
		} else {
			k := rng.Range(1, 4)
			seen := map[int]bool{}
			for len(c.Vals) < k+1 {
				v := rng.Range(0, 7) * scales[rng.Intn(len(scales))]
				if !seen[v] {
					seen[v] = true
					c.Vals = append(c.Vals, v)
				}
			}
			for a := 0; a < len(c.Vals); a++ { // descending
				for b := a + 1; b < len(c.Vals); b++ {
					if c.Vals[b] > c.Vals[a] {
						c.Vals[a], c.Vals[b] = c.Vals[b], c.Vals[a]
					}
				}
			}
			for _, b := range rng.Perm(2*lv + 1)[:k] {
				c.Brk = append(c.Brk, b-lv)
			}
			for a := 0; a < len(c.Brk); a++ { // ascending
				for b := a + 1; b < len(c.Brk); b++ {
					if c.Brk[b] < c.Brk[a] {
						c.Brk[a], c.Brk[b] = c.Brk[b], c.Brk[a]
					}
				}
			}
		}
		tk := &c17StepTicker{vals: c.Vals, brk: c.Brk}
		maxes := []int{rng.Range(1, 5), rng.Range(1, 20), rng.Range(6, 20), rng.PickI(21, 50, 99, 100, 101, 1000, 1000000), math.MaxInt, math.MaxInt / 8}
		for _, v := range c.Vals {
			for _, m := range []int{v, v - 1, v + 1, v / 100, v/100 - 1, v/100 + 1} {
				if m >= 1 {
					maxes = append(maxes, m)
				}
			}
		}
		type win struct{ mn, mx int }
		wins := []win{{0, 0}, {-gl, gl}}
		for len(wins) < 7 {
			a, b := rng.Range(-gl, gl), rng.Range(-gl, gl)
			if len(wins) < 6 && a > b {
				a, b = b, a
			}
			if a != 0 || b != 0 {
				wins = append(wins, win{a, b})
			}
		}
		// a window ending exactly where the count drops
		if len(c.Brk) > 0 {
			b := c.Brk[rng.Intn(len(c.Brk))]
			if a := b - rng.Range(0, 5); a != 0 || b != 0 {
				wins = append(wins, win{a, b})
			}
		}
		for _, m := range maxes {
			c.OMax = m
			for _, wn := range wins {
				c.MinLevel, c.MaxLevel = wn.mn, wn.mx
				for c.Guess = -gl; c.Guess <= gl; c.Guess++ {
					c17JudgeFL(w, &c, &st, tk)
				}
				for n := 0; n < 2; n++ {
					c.Guess = extreme[rng.Intn(len(extreme))]
					c17JudgeFL(w, &c, &st, tk)
				}
			}
		}
		st.flush(w)
		w.Distinct(mon.NewHasher().S("fl-scaled").Is(c.Vals).Is(c.Brk).Sum())
		if i%997 == 0 && w.WantSample() {
			w.Sample(map[string]any{"findlevel_function": map[string]any{"vals": c.Vals, "breaks": c.Brk}, "max_values": maxes, "calls": st.n})
		}
	})

	// ---- FindLevel, far levels: the count changes hundreds of levels away
	// from 0, so without level limits (and with wide explicit ones) the answer
	// lies far outside the levels of the enumeration above.
	farLv := []int{-1000, -999, -700, -150, -101, -3, 0, 4, 101, 150, 700, 999, 1000}
	farVals := []int{0, 2, 5, 9}
	var farFs [][2][]int
	{
		var vsets [][]int // strictly decreasing value sequences of length 2..4
		for mask := 1; mask < 1<<len(farVals); mask++ {
			var vs []int
			for b := len(farVals) - 1; b >= 0; b-- {
				if mask>>b&1 == 1 {
					vs = append(vs, farVals[b])
				}
			}
			if len(vs) >= 2 {
				vsets = append(vsets, vs)
			}
		}
		for mask := 1; mask < 1<<len(farLv); mask++ {
			var bs []int
			for b := 0; b < len(farLv); b++ {
				if mask>>b&1 == 1 {
					bs = append(bs, farLv[b])
				}
			}
			if len(bs) > 3 {
				continue
			}
			for _, vs := range vsets {
				if len(vs) == len(bs)+1 {
					farFs = append(farFs, [2][]int{vs, bs})
				}
			}
		}
	}
	farMax := []int{1, 3, 6, 10}
	farWin := [][2]int{{0, 0}, {-1000, 1000}, {-1200, 1200}, {120, 800}, {-800, -120}, {-999, 999}, {-160, 160}}
	farGuess := []int{0, 1, -1, 7, -8, 99, 100, 101, -99, -100, -101, 149, 150, 151, -149, -150, -151, 500, -500, 699, -701, 998, 999, 1000, 1001, -998, -999, -1000, -1001, 5000, -5000, math.MaxInt, math.MinInt}
	r.Exhaustive(fmt.Sprintf("FindLevel far levels: all %d strictly decreasing step functions with <=3 steps at levels %v and values from %v x Max %v x windows %v ((0,0) = unlimited) x guesses %v", len(farFs), farLv, farVals, farMax, farWin, farGuess))
	r.Parallel("findlevel-far-levels", len(farFs), func(w *mon.W, i int) {
		var st c17FLStats
		c := c17Case{Kind: "fl", Vals: farFs[i][0], Brk: farFs[i][1]}
		tk := &c17StepTicker{vals: c.Vals, brk: c.Brk}
		for _, c.OMax = range farMax {
			for _, wn := range farWin {
				c.MinLevel, c.MaxLevel = wn[0], wn[1]
				for _, c.Guess = range farGuess {
					c17JudgeFL(w, &c, &st, tk)
				}
			}
		}
		st.flush(w)
		w.Distinct(mon.NewHasher().S("fl-far").Is(c.Vals).Is(c.Brk).Sum())
		if i%211 == 0 && w.WantSample() {
			w.Sample(map[string]any{"findlevel_function": map[string]any{"vals": c.Vals, "breaks": c.Brk}, "calls": st.n, "max_CountTicks_calls_in_one_search": st.maxCalls})
		}
	})

	// ---- fixed cases: the repo's own examples, the probes of the design
	var fixed []c17Case
	for _, d := range [][2]float64{{0, 100}, {15.4, 16.6}, {9.9989, 10}, {2, 9}, {1971.98, 1979.97}, {-1, 1}, {-0.3, 0.7}, {100, 0}, {0, 1}, {-5, 5}, {0.1, 0.3}, {-1e9 / 2, 1e9 / 2}, {0, 1e-9},
		{-8.381903171539306e-18, 2.793967723846156e-09}, {-1e-16, 1e-8}, {-1e-8, 1e-16}} {
		for _, b := range c17LinBases {
			for m := 1; m <= 20; m++ {
				fixed = append(fixed, c17Case{Kind: "lin", Min: mon.F(d[0]), Max: mon.F(d[1]), Base: b, OMax: m, Clamp: len(fixed) % 3, Alt: c17FixedAlt(m)})
			}
		}
	}
	for _, d := range [][2]float64{{1, 10}, {1, 100}, {1, 1e8}, {0.91, 200}, {-100, -1}, {0.5, 20}, {2, 5}, {1e-100, 1e100}, {-1e100, -1e-100}, {1, 1.0001}, {0.3, 3}, {1e99, 1e100}, {1e-100, 2e-100}} {
		for _, b := range c17LogBases {
			for m := 1; m <= 20; m++ {
				fixed = append(fixed, c17Case{Kind: "log", Min: mon.F(d[0]), Max: mon.F(d[1]), Base: b, OMax: m, Clamp: len(fixed) % 3, Alt: c17FixedAlt(m)})
			}
		}
	}
	r.Parallel("fixed", len(fixed), func(w *mon.W, i int) {
		if fixed[i].Kind == "lin" {
			c17JudgeLin(w, fixed[i])
		} else {
			c17JudgeLog(w, fixed[i])
		}
	})

	// ---- Linear
	nl := r.Pick(12000, 180000)
	r.Parallel("linear-random", nl, func(w *mon.W, i int) {
		if c, ok := c17GenLinRandom(w, w.Rng); ok {
			c17JudgeLin(w, c)
		}
	})
	ns := r.Pick(8000, 120000)
	r.Parallel("linear-snapped", ns, func(w *mon.W, i int) {
		if c, ok := c17GenLinSnapped(w, w.Rng, i); ok {
			c17JudgeLin(w, c)
		}
	})

	// ---- Log
	ng := r.Pick(8000, 120000)
	r.Parallel("log-random", ng, func(w *mon.W, i int) {
		if c, ok := c17GenLogRandom(w, w.Rng); ok {
			c17JudgeLog(w, c)
		}
	})
	nt := r.Pick(6000, 90000)
	r.Parallel("log-snapped", nt, func(w *mon.W, i int) {
		if c, ok := c17GenLogSnapped(w, w.Rng, i); ok {
			c17JudgeLog(w, c)
		}
	})

	// ---- reused scale values: a second domain assigned to the exported
	// fields of a value that has already answered calls for a first one
	nrl := r.Pick(2500, 40000)
	r.Parallel("linear-reused-scale", nrl, func(w *mon.W, i int) {
		rng := w.Rng
		gen := func() (c17Case, bool) {
			if rng.Bool() {
				return c17GenLinRandom(w, rng)
			}
			return c17GenLinSnapped(w, rng, rng.Intn(3))
		}
		a, ok1 := gen()
		c, ok2 := gen()
		if !ok1 || !ok2 {
			return
		}
		if rng.Intn(4) == 0 && c.MinLevel == 0 && c.MaxLevel == 0 {
			c.Base = a.Base // only the domain moves (zooming an axis); level limits are drawn relative to the base
			if c.Alt != nil {
				c.Alt.MinLevel, c.Alt.MaxLevel = 0, 0
			}
		}
		c.Prev = c17PrevOf(a, []string{"calls", "nice"}[i%2])
		c17JudgeLin(w, c)
	})
	nrg := r.Pick(2500, 40000)
	r.Parallel("log-reused-scale", nrg, func(w *mon.W, i int) {
		rng := w.Rng
		gen := func() (c17Case, bool) {
			if rng.Bool() {
				return c17GenLogRandom(w, rng)
			}
			return c17GenLogSnapped(w, rng, rng.Intn(3))
		}
		a, ok1 := gen()
		c, ok2 := gen()
		if !ok1 || !ok2 {
			return
		}
		if rng.Intn(4) == 0 && c.MinLevel == 0 && c.MaxLevel == 0 {
			c.Base = a.Base
			if c.Alt != nil {
				c.Alt.MinLevel, c.Alt.MaxLevel = 0, 0
			}
		}
		c.Prev = c17PrevOf(a, []string{"calls", "nice"}[i%2])
		c17JudgeLog(w, c)
	})

	// ---- reused scale values, ONE field assigned: only Base, only Min or
	// only Max of a value that has answered calls (and has been Nice'd in
	// place) changes, the other fields stay as the value has them
	npl := r.Pick(1500, 24000)
	r.Parallel("linear-reused-one-field", npl, func(w *mon.W, i int) {
		rng := w.Rng
		var a c17Case
		var ok bool
		if rng.Bool() {
			a, ok = c17GenLinRandom(w, rng)
		} else {
			a, ok = c17GenLinSnapped(w, rng, rng.Intn(3))
		}
		if !ok {
			return
		}
		c := a
		c.OMax, c.MinLevel, c.MaxLevel, c.Alt = c17PickMax(rng), 0, 0, nil
		c.Prev = c17PrevOf(a, []string{"calls", "nice"}[i%2])
		c.Prev.Assign = []string{"base", "min", "max"}[(i/2)%3]
		mn, mx := float64(a.Min), float64(a.Max)
		wd := math.Abs(mx - mn)
		// the end moves outwards by up to three widths (or by 10..1000) or
		// inwards by up to 0.9
		d := wd * rng.Uniform(-0.9, 3)
		if rng.Intn(4) == 0 {
			d = wd * rng.Uniform(0, 1) * math.Pow(10, float64(rng.Range(1, 3)))
		}
		if mn > mx {
			d = -d
		}
		switch c.Prev.Assign {
		case "base":
			for c.Base == a.Base {
				c.Base = c17LinBases[rng.Intn(len(c17LinBases))]
			}
		case "min":
			c.Min = mon.F(mn - d)
		case "max":
			c.Max = mon.F(mx + d)
		}
		lo, hi := math.Min(float64(c.Min), float64(c.Max)), math.Max(float64(c.Min), float64(c.Max))
		if !c17InLinDomain(lo, hi) {
			w.Note("lin-generated-outside-domain")
			return
		}
		if k := c17LimitKind(rng); k != 0 {
			if lU, _, has, _ := c17NewLinRef(lo, hi, c.Base).search(c.OMax, 0, 0); has {
				c.MinLevel, c.MaxLevel = c17Limits(rng, lU, k)
			}
		}
		c17JudgeLin(w, c)
	})
	npg := r.Pick(1500, 24000)
	r.Parallel("log-reused-one-field", npg, func(w *mon.W, i int) {
		rng := w.Rng
		var a c17Case
		var ok bool
		if rng.Bool() {
			a, ok = c17GenLogRandom(w, rng)
		} else {
			a, ok = c17GenLogSnapped(w, rng, rng.Intn(3))
		}
		if !ok {
			return
		}
		c := a
		c.OMax, c.MinLevel, c.MaxLevel, c.Alt = c17PickMax(rng), 0, 0, nil
		c.Prev = c17PrevOf(a, []string{"calls", "nice"}[i%2])
		c.Prev.Assign = []string{"base", "min", "max"}[(i/2)%3]
		mn, mx := float64(a.Min), float64(a.Max) // mn < mx, one sign
		neg := mn < 0
		ratio := mx / mn // of the magnitudes, > 1
		if neg {
			ratio = mn / mx
		}
		// the end moves outwards by up to the log-width or inwards by up to
		// 0.9 of it (in magnitude: Min of a positive domain and Max of a
		// negative one move down when they move outwards)
		u := rng.Uniform(-0.9, 1)
		switch c.Prev.Assign {
		case "base":
			for c.Base == a.Base {
				c.Base = c17LogBases[rng.Intn(len(c17LogBases))]
			}
		case "min":
			if neg {
				c.Min = mon.F(mn * math.Pow(ratio, u))
			} else {
				c.Min = mon.F(mn * math.Pow(ratio, -u))
			}
		case "max":
			if neg {
				c.Max = mon.F(mx * math.Pow(ratio, -u))
			} else {
				c.Max = mon.F(mx * math.Pow(ratio, u))
			}
		}
		lo, hi := float64(c.Min), float64(c.Max)
		if neg {
			lo, hi = -hi, -lo
		}
		if !c17InLogDomain(lo, hi) {
			w.Note("log-generated-outside-domain")
			return
		}
		if k := c17LimitKind(rng); k != 0 && k != 6 {
			R := c17NewLogRef(lo, hi, false, c.Base)
			if lU, _, has, _ := R.search(c.OMax, 0, 0); has {
				if l1, l2 := c17Limits(rng, lU, k); l2 <= R.lcap {
					c.MinLevel, c.MaxLevel = l1, l2
				}
			}
		}
		c17JudgeLog(w, c)
	})
}

// generators -----------------------------------------------------------------

func c17GenLinRandom(w *mon.W, rng *mon.Rand) (c17Case, bool) {
	width := rng.LogUniform(1e-9, 1e9)
	var ratio float64
	switch rng.Intn(5) {
	case 0:
		ratio = 0
	case 1:
		ratio = rng.Uniform(-1e3, 1e3)
	case 2:
		ratio = rng.Uniform(-1, 1)
	case 3:
		ratio = rng.Sign() * rng.LogUniform(1e-3, 1e3)
	default:
		ratio = rng.Uniform(-20, 20)
	}
	lo, hi := ratio*width-width/2, ratio*width+width/2
	if ratio == 0 {
		lo = -hi
	}
	if !c17InLinDomain(lo, hi) {
		w.Note("lin-generated-outside-domain")
		return c17Case{}, false
	}
	return c17LinFinish(rng, c17LinCase(rng, lo, hi)), true
}

func c17GenLinSnapped(w *mon.W, rng *mon.Rand, i int) (c17Case, bool) {
	c := c17LinCase(rng, 0, 1)
	// ends on multiples of a nice spacing, optionally pushed off by a
	// fraction of the width around the library's 1e-10 slack
	level := rng.Range(-16, 16)
	if c.Base == 2 || c.Base == 3 {
		level = rng.Range(-50, 50)
	}
	S := ref.LinSpacing(c.Base, level)
	Sf, _ := S.Float64()
	n := int64(rng.Range(1, 40))
	if rng.Intn(4) == 0 {
		n = int64(rng.Range(1, 400))
	}
	var a int64
	switch rng.Intn(4) {
	case 0:
		a = -int64(rng.Intn(int(n) + 1)) // straddles or touches 0
	case 1:
		a = 0
	default:
		a = int64(rng.Intn(int(900*n))) * int64(rng.Sign())
	}
	var lo, hi float64
	if rng.Bool() {
		lo, hi = ref.LinTick(a, S), ref.LinTick(a+n, S)
	} else {
		lo, hi = float64(a)*Sf, float64(a+n)*Sf
	}
	if i%3 != 0 {
		wd := hi - lo
		offs := []float64{0, 0, 3e-9, -3e-9, 1e-8, -1e-8, 2e-10, -2e-10, 5e-11, -5e-11, 1e-12, -1e-12, 1e-13, -1e-13, 1e-3, -1e-3,
			1.5e-10, -1.5e-10, 3e-10, -3e-10, 4e-10, -4e-10, 7e-10, -7e-10}
		lo += offs[rng.Intn(len(offs))] * wd
		hi += offs[rng.Intn(len(offs))] * wd
		w.Note("lin-near-slack-offsets")
	}
	if !c17InLinDomain(lo, hi) {
		w.Note("lin-generated-outside-domain")
		return c17Case{}, false
	}
	c.Min, c.Max = mon.F(lo), mon.F(hi)
	return c17LinFinish(rng, c), true
}

func c17GenLogRandom(w *mon.W, rng *mon.Rand) (c17Case, bool) {
	c := c17Case{Kind: "log", Base: c17LogBases[rng.Intn(len(c17LogBases))], OMax: c17PickMax(rng)}
	var span float64 // decades
	switch rng.Intn(6) {
	case 0:
		span = rng.Uniform(4.35e-5, 0.1)
	case 1:
		span = rng.Uniform(0.1, 3)
	case 2:
		span = rng.Uniform(30, 200)
	default:
		span = rng.Uniform(1, 30)
	}
	var l10 float64
	switch rng.Intn(4) {
	case 0: // straddling 1
		l10 = -rng.Uniform(0, span)
	case 1:
		l10 = rng.Uniform(-3, 3)
	default:
		l10 = rng.Uniform(-100, 100-span)
	}
	if l10 < -100 {
		l10 = -100
	}
	if l10+span > 100 {
		span = 100 - l10
	}
	lo, hi := math.Pow(10, l10), math.Pow(10, l10+span)
	if !c17InLogDomain(lo, hi) {
		w.Note("log-generated-outside-domain")
		return c17Case{}, false
	}
	c.Min, c.Max = mon.F(lo), mon.F(hi)
	return c17LogFinish(rng, c), true
}

func c17GenLogSnapped(w *mon.W, rng *mon.Rand, i int) (c17Case, bool) {
	c := c17Case{Kind: "log", Base: c17LogBases[rng.Intn(len(c17LogBases))], OMax: c17PickMax(rng)}
	b := float64(c.Base)
	maxExp := int(math.Floor(100 * math.Ln10 / math.Log(b)))
	var e1, e2 int
	switch rng.Intn(4) {
	case 0: // straddles 1
		e1, e2 = -rng.Range(0, 12), rng.Range(0, 12)
	case 1: // wide
		e1 = rng.Range(-maxExp, maxExp)
		e2 = rng.Range(-maxExp, maxExp)
	default:
		e1 = rng.Range(-maxExp, maxExp-1)
		e2 = e1 + rng.Range(1, 24)
	}
	if e1 > e2 {
		e1, e2 = e2, e1
	}
	if e2 > maxExp {
		e2 = maxExp
	}
	if e1 == e2 {
		if e2 < maxExp {
			e2++
		} else {
			e1--
		}
	}
	lo, hi := math.Pow(b, float64(e1)), math.Pow(b, float64(e2))
	// ends on minor ticks k*base^e
	if rng.Intn(3) == 0 {
		lo *= float64(rng.Range(1, c.Base-1))
	}
	if rng.Intn(3) == 0 && e2 < maxExp {
		hi *= float64(rng.Range(1, c.Base-1))
	}
	if i%3 != 0 {
		if rng.Bool() {
			// relative offsets of the ends
			offs := []float64{0, 0, 1e-7, -1e-7, 3e-9, -3e-9, 1e-10, -1e-10, 1e-12, -1e-12, 1e-14, -1e-14, 2.3e-16, -2.3e-16, 1e-3, -1e-3}
			lo *= 1 + offs[rng.Intn(len(offs))]
			hi *= 1 + offs[rng.Intn(len(offs))]
		} else {
			// offsets as a fraction of the log-width, around the library's
			// 1e-10 slack and the 2e-10 the monitor allows
			offs := []float64{0, 5e-11, -5e-11, 1.5e-10, -1.5e-10, 3e-10, -3e-10, 4e-10, -4e-10, 7e-10, -7e-10, 3e-9, -3e-9}
			lw := math.Log(hi / lo)
			lo *= math.Exp(offs[rng.Intn(len(offs))] * lw)
			hi *= math.Exp(offs[rng.Intn(len(offs))] * lw)
		}
		w.Note("log-near-slack-offsets")
	}
	if !c17InLogDomain(lo, hi) {
		w.Note("log-generated-outside-domain")
		return c17Case{}, false
	}
	c.Min, c.Max = mon.F(lo), mon.F(hi)
	return c17LogFinish(rng, c), true
}
