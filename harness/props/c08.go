package props

import (
	"encoding/json"
	"fmt"
	"math"
	"math/big"
	"sort"
	"strconv"
	"sync"
	"sync/atomic"

	"github.com/aclements/go-moremath/mathx"
	"gonum.org/v1/gonum/mathext"

	"verifmon/mon"
	"verifmon/ref"
)

// C08 — mathx special functions are accurate and obey their identities.
//
// References: closed forms in 384-bit big.Float for integer parameters
// (binomial tail sum, Poisson tail sum) and half-integer gamma (erfc); an
// all-positive hypergeometric series in big.Float for arbitrary parameters
// (used directly on a few thousand points and as the adjudicator); the
// cephes-derived gonum/mathext as the cheap second opinion on the bulk
// workload. A bulk point is a violation only if the library disagrees with
// mathext AND with the big.Float adjudicator; closed-form and big.Float
// points are judged against those directly.

const (
	c08Tol     = 1e-9    // stated absolute tolerance of BetaInc / GammaInc / GammaIncComp
	c08TolRel  = 1e-10   // stated relative tolerance of Choose
	c08MonoTol = 1.2e-13 // constant part of the slack of the monotonicity laws (4 x the 3e-14 stop criterion), see c08Slack
	c08Lo      = 0.05
	c08Hi      = 300.0
)

type c08Case struct {
	Op   string  `json:"op"`
	Mode string  `json:"mode,omitempty"` // fast | big | closed
	X    mon.F   `json:"x"`
	A    mon.F   `json:"a"`
	B    mon.F   `json:"b"`
	Xs   []mon.F `json:"xs,omitempty"`
	N    int     `json:"n"`
	K    int     `json:"k"`
}

func init() {
	mon.Register(&mon.Prop{ID: "C08", Run: c08Run, Replay: func(w *mon.W, v *mon.ViolationRec) {
		var c c08Case
		if json.Unmarshal(v.Case, &c) == nil {
			atomic.StoreInt64(&c08AdjLeft, 1<<40)
			c08Judge(w, c)
		}
	}})
}

// adjudication budget: only reached when the library (or mathext) is wrong
// on very many points; bounds the run time of a badly broken tree.
var (
	c08AdjLeft    int64
	c08AdjSkipped int64
)

func c08Judge(w *mon.W, c c08Case) {
	switch c.Op {
	case "betainc":
		c08JudgeBetaInc(w, c)
	case "betainc-mono":
		c08JudgeBetaMono(w, c)
	case "special-x":
		c08JudgeSpecialX(w, c)
	case "betainc-outside":
		c08JudgeBetaOutside(w, c)
	case "gammainc":
		c08JudgeGammaInc(w, c)
	case "gammainc-mono":
		c08JudgeGammaMono(w, c)
	case "gammainc-nan":
		c08JudgeGammaNaN(w, c)
	case "beta":
		c08JudgeBeta(w, c)
	case "choose":
		c08JudgeChoose(w, c.N, c.K, nil)
	case "sign":
		c08JudgeSign(w, c)
	}
}

// library calls with panic capture -------------------------------------------

func c08BetaInc(w *mon.W, x, a, b float64) (v float64, pv any, ok bool) {
	w.Eval("BetaInc")
	p, pv := mon.Call(func() { v = mathx.BetaInc(x, a, b) })
	return v, pv, !p
}

func c08GammaInc(w *mon.W, a, x float64) (v float64, pv any, ok bool) {
	w.Eval("GammaInc")
	p, pv := mon.Call(func() { v = mathx.GammaInc(a, x) })
	return v, pv, !p
}

func c08GammaIncComp(w *mon.W, a, x float64) (v float64, pv any, ok bool) {
	w.Eval("GammaIncComp")
	p, pv := mon.Call(func() { v = mathx.GammaIncComp(a, x) })
	return v, pv, !p
}

func c08TakeAdj() bool {
	if atomic.AddInt64(&c08AdjLeft, -1) < 0 {
		atomic.AddInt64(&c08AdjSkipped, 1)
		return false
	}
	return true
}

// Slack of the monotonicity laws. Both functions are a prefactor exp(E) times
// a series or continued fraction, where E is a sum of terms (ln Gamma of the
// parameters, a ln x, b ln(1-x), x) that are individually large and cancel;
// Gamma(a+b) overflows float64 long before a+b = 600, so every float64
// implementation forms E in log space and inherits a relative noise of about
// eps*M, M = sum of the magnitudes of the terms of E. Following DESIGN
// section 4(b) the slack is 16*eps*M (eps = 2^-52) plus a constant 1.2e-13
// = 4 x 3e-14, the relative truncation left by the stop criterion of the
// series / continued fractions named in the property's mechanism (each value
// is <= 1), never above 1e-10, i.e. always at least ten times tighter than
// the 1e-9 accuracy claim, so a step at the branch switch is still caught.
// (The constant part was 1e-12 before; a continued fraction stopped at 3e-12
// instead of 3e-14 passed the ulp-chains under it. On the pristine tree the
// largest drop seen where M is small is 5e-15.)
func c08Slack(M float64) float64 {
	return math.Min(c08MonoTol+16*0x1p-52*M, 1e-10)
}

func c08AbsLgamma(v float64) float64 {
	l, _ := math.Lgamma(v)
	return math.Abs(l)
}

func c08BetaNoise(x, a, b float64) float64 {
	M := c08AbsLgamma(a+b) + c08AbsLgamma(a) + c08AbsLgamma(b)
	if x > 0 && x < 1 {
		M += a*math.Abs(math.Log(x)) + b*math.Abs(math.Log1p(-x))
	}
	return M
}

func c08GammaNoise(a, x float64) float64 {
	M := c08AbsLgamma(a)
	if x > 0 {
		M += a*math.Abs(math.Log(x)) + x
	}
	return M
}

// BetaInc ----------------------------------------------------------------------

func c08BetaClasses(w *mon.W, x, a, b float64) {
	sw := (a + 1) / (a + b + 2)
	mean := a / (a + b)
	sd := math.Sqrt(a * b / ((a + b) * (a + b) * (a + b + 1)))
	w.HitIf(x < sw && sw-x <= 1e-6, "beta-switch-below")
	w.HitIf(x >= sw && x-sw <= 1e-6, "beta-switch-above")
	w.HitIf(a < 0.1 || b < 0.1, "beta-small-param")
	w.HitIf(a > 250 || b > 250, "beta-large-param")
	w.HitIf((a < 0.1 && b > 250) || (b < 0.1 && a > 250), "beta-small-and-large-param")
	w.HitIf(x == 0, "beta-x=0")
	w.HitIf(x == 0 && math.Signbit(x), "beta-x=-0")
	w.HitIf(x == 1, "beta-x=1")
	w.HitIf((x == 0 || x == 1) && a == math.Floor(a) && b == math.Floor(b), "beta-end-point-int-params")
	w.HitIf((x == 0 || x == 1) && (a == 1 || b == 1), "beta-end-point-param=1")
	da, db := c08OffSpecial(a), c08OffSpecial(b)
	w.HitIf(da > 0 || db > 0, "beta-param-near-special")
	w.HitIf((da > 0 && da <= 1e-7) || (db > 0 && db <= 1e-7), "beta-param-within-1e-7-of-special")
	w.HitIf((da > 0 && math.Abs(a-1) <= 1e-3) || (db > 0 && math.Abs(b-1) <= 1e-3), "beta-param-near-1")
	w.HitIf(a == 1 || b == 1, "beta-param=1")
	w.HitIf(x > 0 && x < 1e-100, "beta-x-tiny")
	w.HitIf(x < 1 && x > 1-1e-12, "beta-x-near-1")
	w.HitIf(math.Abs(x-mean) <= sd, "beta-x-near-mean")
	w.HitIf(a < 1 || b < 1, "beta-param<1")
}

func c08JudgeBetaInc(w *mon.W, c c08Case) { c08JudgeBetaIncRef(w, c, nil) }

// c08JudgeBetaIncRef: as c08JudgeBetaInc; in mode "big", bigRef (if not nil)
// yields the 384-bit reference value of the case from tables prepared by the
// caller (the same series as ref.BetaIncBig; a replay recomputes it in full).
func c08JudgeBetaIncRef(w *mon.W, c c08Case, bigRef func() float64) {
	x, a, b := float64(c.X), float64(c.A), float64(c.B)
	if !(x >= 0 && x <= 1 && a >= c08Lo && a <= c08Hi && b >= c08Lo && b <= c08Hi) {
		return // outside the statement's domain
	}
	c08BetaClasses(w, x, a, b)
	mode := c.Mode
	aInt := a == math.Floor(a) && b == math.Floor(b)
	if mode == "closed" && !aInt {
		mode = "big"
	}
	switch mode {
	case "closed":
		w.Hit("closed-form-int-beta")
	case "big":
		w.Hit("bigfloat-beta")
		w.HitIf(c08OffSpecial(a) > 0 || c08OffSpecial(b) > 0, "bigfloat-beta-param-near-special")
	default:
		w.Note("mathext-beta")
	}
	w.Distinct(mon.NewHasher().S("betainc").F(x).F(a).F(b).Sum())
	name := fmt.Sprintf("BetaInc(%.17g, %.17g, %.17g)", x, a, b)

	got, pv, ok := c08BetaInc(w, x, a, b)
	if !ok {
		w.Violate("BetaInc-panic", fmt.Sprintf("%s panicked: %v", name, pv), c)
		return
	}
	if math.IsNaN(got) || got < 0 || got > 1 {
		w.Violate("BetaInc-range", fmt.Sprintf("%s = %.17g is not in [0,1]", name, got), c)
		return
	}
	if x == 0 && got != 0 {
		w.Violate("BetaInc-at-0", fmt.Sprintf("%s = %.17g, must be 0", name, got), c)
	}
	if x == 1 && got != 1 {
		w.Violate("BetaInc-at-1", fmt.Sprintf("%s = %.17g, must be 1", name, got), c)
	}

	// M-ref
	switch mode {
	case "closed":
		want := ref.F64(ref.BetaIncInt(x, int(a), int(b)))
		if !w.Err("BetaInc-vs-binomial-sum", math.Abs(got-want), c08Tol) {
			w.Violate("BetaInc-value", fmt.Sprintf("%s = %.17g, binomial tail sum gives %.17g (diff %.3g)", name, got, want, got-want), c)
		}
	case "big":
		var want float64
		if bigRef != nil {
			want = bigRef()
		} else {
			v, _ := ref.BetaIncBig(x, a, b)
			want = ref.F64(v)
		}
		if !w.Err("BetaInc-vs-bigfloat-series", math.Abs(got-want), c08Tol) {
			w.Violate("BetaInc-value", fmt.Sprintf("%s = %.17g, 384-bit series gives %.17g (diff %.3g)", name, got, want, got-want), c)
		}
	default:
		var m float64
		pm, _ := mon.Call(func() { m = mathext.RegIncBeta(a, b, x) })
		d := math.Abs(got - m)
		if pm || math.IsNaN(m) || !(d <= c08Tol/2) {
			// the two disagree: the big.Float series decides
			if c08TakeAdj() {
				w.Note("adjudicated-beta")
				v, _ := ref.BetaIncBig(x, a, b)
				want := ref.F64(v)
				if !w.Err("BetaInc-vs-bigfloat-series(adjudicated)", math.Abs(got-want), c08Tol) {
					w.Violate("BetaInc-value", fmt.Sprintf("%s = %.17g, mathext gives %.17g and the 384-bit series %.17g (diff %.3g)", name, got, m, want, got-want), c)
				}
			}
		} else {
			w.Err("BetaInc-vs-mathext", d, c08Tol)
		}
	}

	// M-law: I_x(a,b) + I_{1-x}(b,a) = 1, on an x for which 1-x is exact
	xs := x
	if x < 0.5 && x != 0 { // x = 0 (of either sign) is kept as it is: 1-x = 1 exactly
		xs = 1 - (1 - x)
	}
	g1 := got
	if xs != x {
		w.Note("symmetry-x-snapped-to-2^-53-grid")
		if g1, pv, ok = c08BetaInc(w, xs, a, b); !ok {
			w.Violate("BetaInc-panic", fmt.Sprintf("BetaInc(%.17g, %.17g, %.17g) panicked: %v", xs, a, b, pv), c08Case{Op: "betainc", Mode: c.Mode, X: mon.F(xs), A: c.A, B: c.B})
			return
		}
	}
	g2, pv, ok := c08BetaInc(w, 1-xs, b, a)
	if !ok {
		w.Violate("BetaInc-panic", fmt.Sprintf("BetaInc(%.17g, %.17g, %.17g) panicked: %v", 1-xs, b, a, pv), c08Case{Op: "betainc", Mode: c.Mode, X: mon.F(1 - xs), A: c.B, B: c.A})
		return
	}
	if !w.Err("BetaInc-symmetry", math.Abs(g1+g2-1), c08Tol) {
		w.Violate("BetaInc-symmetry", fmt.Sprintf("BetaInc(%.17g,%.17g,%.17g) + BetaInc(%.17g,%.17g,%.17g) = %.17g + %.17g = 1%+.3g", xs, a, b, 1-xs, b, a, g1, g2, g1+g2-1), c)
	}
	if w.WantSample() {
		w.Sample(map[string]any{"op": "BetaInc", "x": mon.F(x), "a": mon.F(a), "b": mon.F(b), "got": mon.F(got), "mode": mode, "complement": mon.F(g2)})
	}
}

func c08JudgeBetaMono(w *mon.W, c c08Case) {
	a, b := float64(c.A), float64(c.B)
	xs := mon.Un(c.Xs)
	if !(a >= c08Lo && a <= c08Hi && b >= c08Lo && b <= c08Hi) || len(xs) < 2 {
		return
	}
	sort.Float64s(xs)
	sw := (a + 1) / (a + b + 2)
	w.HitIf(a < 0.1 || b < 0.1, "beta-small-param")
	w.HitIf(a > 250 || b > 250, "beta-large-param")
	w.Hit("beta-monotone-grid")
	w.HitIf(c.Mode == "hunt", "beta-monotone-hunted-grid")
	mean := a / (a + b)
	w.Distinct(mon.NewHasher().S("betainc-mono").F(a).F(b).Fs(xs).Sum())
	prev, prevX := math.Inf(-1), math.NaN()
	for _, x := range xs {
		if !(x >= 0 && x <= 1) {
			continue
		}
		got, pv, ok := c08BetaInc(w, x, a, b)
		one := c08Case{Op: "betainc", Mode: "big", X: mon.F(x), A: c.A, B: c.B}
		if !ok {
			w.Violate("BetaInc-panic", fmt.Sprintf("BetaInc(%.17g, %.17g, %.17g) panicked: %v", x, a, b, pv), one)
			return
		}
		if math.IsNaN(got) || got < 0 || got > 1 {
			w.Violate("BetaInc-range", fmt.Sprintf("BetaInc(%.17g, %.17g, %.17g) = %.17g is not in [0,1]", x, a, b, got), one)
			return
		}
		if (x == 0 && got != 0) || (x == 1 && got != 1) {
			w.Violate("BetaInc-end-point", fmt.Sprintf("BetaInc(%v, %.17g, %.17g) = %.17g, must be %v", x, a, b, got, x), one)
		}
		w.HitIf((x == 0 || x == 1) && a == math.Floor(a) && b == math.Floor(b), "beta-end-point-int-params")
		w.HitIf(x == 0 && math.Signbit(x), "beta-x=-0")
		if !math.IsNaN(prevX) && x > prevX {
			w.HitIf(prevX < sw && x >= sw, "beta-monotone-across-switch")
			// a closely spaced pair away from every point at which this monitor
			// knows the pristine library to change branch (inputs only)
			if prevX > 0 && x < 1 && x-prevX <= 1e-9*x && c.Mode != "hunt" {
				off := true
				for _, p := range []float64{sw, 1 - sw, mean, 0.5} {
					off = off && math.Abs(x-p) > 1e-3
				}
				w.HitIf(off, "beta-monotone-close-pair-off-switch")
				w.HitIf(off && x >= 1e-12 && x <= 1e-6, "beta-monotone-close-pair-small-x")
			}
			slack := c08Slack(math.Max(c08BetaNoise(prevX, a, b), c08BetaNoise(x, a, b)))
			if !w.Err("BetaInc-monotone", math.Max(0, prev-got), slack) {
				w.Violate("BetaInc-monotone", fmt.Sprintf("BetaInc(x,%.17g,%.17g) decreases: x=%.17g -> %.17g, x=%.17g -> %.17g (drop %.3g)", a, b, prevX, prev, x, got, prev-got),
					c08Case{Op: "betainc-mono", A: c.A, B: c.B, Xs: mon.Fs([]float64{prevX, x})})
			}
		}
		prev, prevX = got, x
	}
}

// c08JudgeSpecialX: a NaN x is outside [0,1] for BetaInc (NaN, no panic);
// x = +Inf is a point of x >= 0 for the gamma functions (P = 1, Q = 0).
func c08JudgeSpecialX(w *mon.W, c c08Case) {
	a, b := float64(c.A), float64(c.B)
	w.Hit("special-x")
	w.HitIf(a == math.Floor(a), "special-x-int-a")
	w.HitIf(a == 1, "special-x-a=1")
	w.HitIf(2*a == math.Floor(2*a) && a != math.Floor(a), "special-x-half-int-a")
	w.HitIf(c08IsSpecialParam(a) || c08IsSpecialParam(b), "special-x-special-params")
	w.Distinct(mon.NewHasher().S("special-x").F(a).F(b).Sum())
	if got, pv, ok := c08BetaInc(w, math.NaN(), a, b); !ok {
		w.Violate("BetaInc-panic", fmt.Sprintf("BetaInc(NaN, %.17g, %.17g) panicked: %v", a, b, pv), c)
	} else if !math.IsNaN(got) {
		w.Violate("BetaInc-outside", fmt.Sprintf("BetaInc(NaN, %.17g, %.17g) = %.17g, must be NaN", a, b, got), c)
	}
	if got, pv, ok := c08GammaInc(w, a, math.Inf(1)); !ok {
		w.Violate("GammaInc-panic", fmt.Sprintf("GammaInc(%.17g, +Inf) panicked: %v", a, pv), c)
	} else if got != 1 {
		w.Violate("GammaInc-inf", fmt.Sprintf("GammaInc(%.17g, +Inf) = %.17g, the lower regularized function tends to 1", a, got), c)
	}
	if got, pv, ok := c08GammaIncComp(w, a, math.Inf(1)); !ok {
		w.Violate("GammaIncComp-panic", fmt.Sprintf("GammaIncComp(%.17g, +Inf) panicked: %v", a, pv), c)
	} else if got != 0 {
		w.Violate("GammaIncComp-inf", fmt.Sprintf("GammaIncComp(%.17g, +Inf) = %.17g, the upper regularized function tends to 0", a, got), c)
	}
}

func c08JudgeBetaOutside(w *mon.W, c c08Case) {
	x, a, b := float64(c.X), float64(c.A), float64(c.B)
	if math.IsNaN(x) || (x >= 0 && x <= 1) {
		return
	}
	w.Hit("beta-x-outside")
	w.HitIf(math.IsInf(x, 0), "beta-x-infinite")
	w.HitIf(x < 0 && x > -1e-300 || x > 1 && x < 1+1e-15, "beta-x-just-outside")
	w.HitIf(c08IsSpecialParam(a) || c08IsSpecialParam(b), "beta-x-outside-special-params")
	w.HitIf(a == 1 || b == 1, "beta-x-outside-param=1")
	w.HitIf(a == 1 && b == 1, "beta-x-outside-a=b=1")
	w.Distinct(mon.NewHasher().S("betainc-outside").F(x).F(a).F(b).Sum())
	got, pv, ok := c08BetaInc(w, x, a, b)
	if !ok {
		w.Violate("BetaInc-panic", fmt.Sprintf("BetaInc(%.17g, %.17g, %.17g) panicked: %v", x, a, b, pv), c)
		return
	}
	if !math.IsNaN(got) {
		w.Violate("BetaInc-outside", fmt.Sprintf("BetaInc(%.17g, %.17g, %.17g) = %.17g, must be NaN for x outside [0,1]", x, a, b, got), c)
	}
}

// GammaInc / GammaIncComp --------------------------------------------------------

func c08GammaXMax(a float64) float64 { return a + 40*math.Sqrt(a) + 40 }

func c08GammaClasses(w *mon.W, a, x float64) {
	sw := a + 1
	w.HitIf(x < sw && sw-x <= 1e-6, "gamma-switch-below")
	w.HitIf(x >= sw && x-sw <= 1e-6, "gamma-switch-above")
	w.HitIf(a < 0.1, "gamma-small-a")
	w.HitIf(a > 250, "gamma-large-a")
	w.HitIf(a > 250 && x > sw, "gamma-cf-large-a")
	w.HitIf(a > 250 && x < sw && x > 0.8*a, "gamma-series-large-a")
	w.HitIf(x == 0, "gamma-x=0")
	w.HitIf(x == 0 && a == math.Floor(a), "gamma-x=0-int-a")
	w.HitIf(math.IsInf(x, 1), "gamma-x=+Inf")
	w.HitIf(math.IsInf(x, 1) && a == math.Floor(a), "gamma-x=+Inf-int-a")
	w.HitIf(a != 1 && math.Abs(a-1) <= 4*0x1p-52, "gamma-a-ulps-from-1")
	w.HitIf(a == 1, "gamma-a=1")
	d := c08OffSpecial(a)
	w.HitIf(d > 0, "gamma-a-near-special")
	w.HitIf(d > 0 && d <= 1e-7, "gamma-a-within-1e-7-of-special")
	w.HitIf(d > 0 && math.Abs(a-1) <= 1e-3, "gamma-a-near-1")
	w.HitIf(x > 0 && x < 1e-100, "gamma-x-tiny")
	w.HitIf(x > c08GammaXMax(a), "gamma-x-huge")
	w.HitIf(math.Abs(x-a) <= math.Sqrt(a), "gamma-x-near-mean")
}

func c08JudgeGammaInc(w *mon.W, c c08Case) { c08JudgeGammaIncLg(w, c, nil) }

// c08JudgeGammaIncLg: as c08JudgeGammaInc; lg1 (if not nil) is the 384-bit
// ln Gamma(a+1) of the case, prepared by the caller for mode "big".
func c08JudgeGammaIncLg(w *mon.W, c c08Case, lg1 *big.Float) {
	a, x := float64(c.A), float64(c.X)
	if !(a >= c08Lo && a <= c08Hi && x >= 0) {
		return
	}
	c08GammaClasses(w, a, x)
	mode := c.Mode
	isInt := a == math.Floor(a)
	isHalf := a-0.5 == math.Floor(a-0.5)
	if mode == "closed" && !isInt && !isHalf {
		mode = "big"
	}
	if math.IsInf(x, 1) {
		// the end point of x >= 0: P = 1, Q = 0 whatever the class of a
		// (no reference is evaluated there)
		mode = "limit"
	}
	switch mode {
	case "limit":
		w.Note("gamma-limit-at-+Inf")
	case "closed":
		w.HitIf(isInt, "closed-form-int-gamma")
		w.HitIf(isHalf, "closed-form-half-gamma")
	case "big":
		w.Hit("bigfloat-gamma")
		w.HitIf(c08OffSpecial(a) > 0, "bigfloat-gamma-a-near-special")
	default:
		w.Note("mathext-gamma")
	}
	w.Distinct(mon.NewHasher().S("gammainc").F(a).F(x).Sum())
	args := fmt.Sprintf("(%.17g, %.17g)", a, x)

	P, pv, ok := c08GammaInc(w, a, x)
	if !ok {
		w.Violate("GammaInc-panic", fmt.Sprintf("GammaInc%s panicked: %v", args, pv), c)
		return
	}
	Q, pv, ok := c08GammaIncComp(w, a, x)
	if !ok {
		w.Violate("GammaIncComp-panic", fmt.Sprintf("GammaIncComp%s panicked: %v", args, pv), c)
		return
	}
	if math.IsNaN(P) || math.IsNaN(Q) {
		w.Violate("GammaInc-NaN-in-domain", fmt.Sprintf("GammaInc%s = %v, GammaIncComp%s = %v on an in-domain argument", args, P, args, Q), c)
		return
	}
	if !w.Err("GammaInc+GammaIncComp", math.Abs(P+Q-1), c08Tol) {
		w.Violate("Gamma-sum", fmt.Sprintf("GammaInc%s + GammaIncComp%s = %.17g + %.17g = 1%+.3g", args, args, P, Q, P+Q-1), c)
	}

	judge := func(oracle, what string, wantP, wantQ float64, extra string) {
		if !w.Err("GammaInc-vs-"+oracle, math.Abs(P-wantP), c08Tol) {
			w.Violate("GammaInc-value", fmt.Sprintf("GammaInc%s = %.17g, %s gives %.17g (diff %.3g)%s", args, P, what, wantP, P-wantP, extra), c)
		}
		if !w.Err("GammaIncComp-vs-"+oracle, math.Abs(Q-wantQ), c08Tol) {
			w.Violate("GammaIncComp-value", fmt.Sprintf("GammaIncComp%s = %.17g, %s gives %.17g (diff %.3g)%s", args, Q, what, wantQ, Q-wantQ, extra), c)
		}
	}
	switch mode {
	case "limit":
		judge("limit", "the limit x -> +Inf", 1, 0, "")
	case "closed":
		var q *big.Float
		what := "the Poisson tail sum"
		if isInt {
			q = ref.GammaQInt(int(a), x)
		} else {
			q = ref.GammaQHalf(int(a), x)
			what = "the erfc closed form"
		}
		p := ref.Sub(ref.NF(1), q)
		judge("closed-form", what, ref.F64(p), ref.F64(q), "")
	case "big":
		p, q := ref.GammaIncBigLg(a, x, lg1)
		judge("bigfloat-series", "the 384-bit series", ref.F64(p), ref.F64(q), "")
	default:
		var mp, mq float64
		pm, _ := mon.Call(func() { mp = mathext.GammaIncReg(a, x); mq = mathext.GammaIncRegComp(a, x) })
		dp, dq := math.Abs(P-mp), math.Abs(Q-mq)
		if pm || math.IsNaN(mp) || math.IsNaN(mq) || !(dp <= c08Tol/2) || !(dq <= c08Tol/2) {
			if c08TakeAdj() {
				w.Note("adjudicated-gamma")
				p, q := ref.GammaIncBig(a, x)
				judge("bigfloat-series(adjudicated)", "the 384-bit series", ref.F64(p), ref.F64(q), fmt.Sprintf(" [mathext: P=%.17g Q=%.17g]", mp, mq))
			}
		} else {
			w.Err("GammaInc-vs-mathext", dp, c08Tol)
			w.Err("GammaIncComp-vs-mathext", dq, c08Tol)
		}
	}
	if w.WantSample() {
		w.Sample(map[string]any{"op": "GammaInc/GammaIncComp", "a": mon.F(a), "x": mon.F(x), "P": mon.F(P), "Q": mon.F(Q), "mode": mode})
	}
}

func c08JudgeGammaMono(w *mon.W, c c08Case) {
	a := float64(c.A)
	xs := mon.Un(c.Xs)
	if !(a >= c08Lo && a <= c08Hi) || len(xs) < 2 {
		return
	}
	sort.Float64s(xs)
	sw := a + 1
	w.HitIf(a < 0.1, "gamma-small-a")
	w.HitIf(a > 250, "gamma-large-a")
	w.Hit("gamma-monotone-grid")
	w.HitIf(c.Mode == "hunt", "gamma-monotone-hunted-grid")
	w.Distinct(mon.NewHasher().S("gammainc-mono").F(a).Fs(xs).Sum())
	prevP, prevQ, prevX := math.Inf(-1), math.Inf(1), math.NaN()
	for _, x := range xs {
		if !(x >= 0) {
			continue
		}
		one := c08Case{Op: "gammainc", Mode: "big", X: mon.F(x), A: c.A}
		P, pv, ok := c08GammaInc(w, a, x)
		if !ok {
			w.Violate("GammaInc-panic", fmt.Sprintf("GammaInc(%.17g, %.17g) panicked: %v", a, x, pv), one)
			return
		}
		Q, pv, ok := c08GammaIncComp(w, a, x)
		if !ok {
			w.Violate("GammaIncComp-panic", fmt.Sprintf("GammaIncComp(%.17g, %.17g) panicked: %v", a, x, pv), one)
			return
		}
		if math.IsNaN(P) || math.IsNaN(Q) {
			w.Violate("GammaInc-NaN-in-domain", fmt.Sprintf("GammaInc(%.17g, %.17g) = %v, GammaIncComp = %v on an in-domain argument", a, x, P, Q), one)
			return
		}
		w.HitIf(a > 250 && x > sw, "gamma-cf-large-a")
		if !w.Err("GammaInc+GammaIncComp", math.Abs(P+Q-1), c08Tol) {
			w.Violate("Gamma-sum", fmt.Sprintf("GammaInc(%.17g,%.17g) + GammaIncComp = %.17g + %.17g = 1%+.3g", a, x, P, Q, P+Q-1), one)
		}
		// end points of the grid: P(a,0) = 0, Q(a,0) = 1; P(a,+Inf) = 1, Q(a,+Inf) = 0
		if x == 0 || math.IsInf(x, 1) {
			wantP, wantQ := 0.0, 1.0
			if x != 0 {
				wantP, wantQ = 1, 0
			}
			w.HitIf(x == 0, "gamma-x=0")
			w.HitIf(x == 0 && a == math.Floor(a), "gamma-x=0-int-a")
			w.HitIf(x != 0, "gamma-x=+Inf")
			w.HitIf(x != 0 && a == math.Floor(a), "gamma-x=+Inf-int-a")
			if !w.Err("GammaInc-at-end-point", math.Abs(P-wantP), c08Tol) {
				w.Violate("GammaInc-end-point", fmt.Sprintf("GammaInc(%.17g, %v) = %.17g, must be %v", a, x, P, wantP), one)
			}
			if !w.Err("GammaIncComp-at-end-point", math.Abs(Q-wantQ), c08Tol) {
				w.Violate("GammaIncComp-end-point", fmt.Sprintf("GammaIncComp(%.17g, %v) = %.17g, must be %v", a, x, Q, wantQ), one)
			}
		}
		if !math.IsNaN(prevX) && x > prevX {
			w.HitIf(prevX < sw && x >= sw, "gamma-monotone-across-switch")
			if prevX > 0 && !math.IsInf(x, 1) && x-prevX <= 1e-9*x && c.Mode != "hunt" {
				off := math.Abs(x-sw) > 1e-3*sw && math.Abs(x-a) > 1e-3*a
				w.HitIf(off, "gamma-monotone-close-pair-off-switch")
				w.HitIf(off && x >= 1e-12 && x <= 1e-6, "gamma-monotone-close-pair-small-x")
			}
			pair := c08Case{Op: "gammainc-mono", A: c.A, Xs: mon.Fs([]float64{prevX, x})}
			slack := c08Slack(math.Max(c08GammaNoise(a, prevX), c08GammaNoise(a, x)))
			if !w.Err("GammaInc-monotone", math.Max(0, prevP-P), slack) {
				w.Violate("GammaInc-monotone", fmt.Sprintf("GammaInc(%.17g,x) decreases: x=%.17g -> %.17g, x=%.17g -> %.17g (drop %.3g)", a, prevX, prevP, x, P, prevP-P), pair)
			}
			if !w.Err("GammaIncComp-monotone", math.Max(0, Q-prevQ), slack) {
				w.Violate("GammaIncComp-monotone", fmt.Sprintf("GammaIncComp(%.17g,x) increases: x=%.17g -> %.17g, x=%.17g -> %.17g (rise %.3g)", a, prevX, prevQ, x, Q, Q-prevQ), pair)
			}
		}
		prevP, prevQ, prevX = P, Q, x
	}
}

func c08JudgeGammaNaN(w *mon.W, c c08Case) {
	a, x := float64(c.A), float64(c.X)
	if !(a <= 0 || x < 0 || math.IsNaN(a) || math.IsNaN(x)) {
		return
	}
	w.Hit("gamma-nan-args")
	w.HitIf(a <= 0, "gamma-a<=0")
	w.HitIf(a == 0, "gamma-a=0")
	w.HitIf(x < 0, "gamma-x<0")
	w.HitIf(math.IsNaN(a), "gamma-a-NaN")
	w.HitIf(math.IsNaN(x), "gamma-x-NaN")
	aLegal := a > 0 // false for NaN
	xLegal := x >= 0
	w.HitIf(aLegal && c08IsSpecialParam(a), "gamma-nan-special-legal-a")
	w.HitIf(a == 1 && x < 0, "gamma-a=1-x<0")
	w.HitIf(a == 1 && math.IsNaN(x), "gamma-a=1-x-NaN")
	w.HitIf(aLegal && a == math.Floor(a) && a > 1 && x < 0, "gamma-int-a-x<0")
	w.HitIf(xLegal && (x == 0 || math.IsInf(x, 1)), "gamma-nan-legal-x-end-point")
	w.Distinct(mon.NewHasher().S("gammainc-nan").F(a).F(x).Sum())
	P, pv, ok := c08GammaInc(w, a, x)
	if !ok {
		w.Violate("GammaInc-panic", fmt.Sprintf("GammaInc(%v, %v) panicked: %v", a, x, pv), c)
	} else if !math.IsNaN(P) {
		w.Violate("GammaInc-NaN-rule", fmt.Sprintf("GammaInc(%v, %v) = %.17g, must be NaN (a<=0, x<0 or NaN argument)", a, x, P), c)
	}
	Q, pv, ok := c08GammaIncComp(w, a, x)
	if !ok {
		w.Violate("GammaIncComp-panic", fmt.Sprintf("GammaIncComp(%v, %v) panicked: %v", a, x, pv), c)
	} else if !math.IsNaN(Q) {
		w.Violate("GammaIncComp-NaN-rule", fmt.Sprintf("GammaIncComp(%v, %v) = %.17g, must be NaN (a<=0, x<0 or NaN argument)", a, x, Q), c)
	}
}

// Beta ---------------------------------------------------------------------------

func c08JudgeBeta(w *mon.W, c c08Case) {
	a, b := float64(c.A), float64(c.B)
	if !(a >= c08Lo && a <= c08Hi && b >= c08Lo && b <= c08Hi) {
		return
	}
	isHI := func(v float64) bool { return 2*v == math.Floor(2*v) }
	w.HitIf(isHI(a) && isHI(b), "beta-fn-half-integers")
	w.HitIf(a+b > 171, "beta-fn-gamma-overflows-float64")
	w.HitIf(a < 0.1 || b < 0.1, "beta-fn-small-param")
	w.Note("beta-fn")
	w.Distinct(mon.NewHasher().S("beta").F(a).F(b).Sum())
	var got float64
	w.Eval("Beta")
	if p, pv := mon.Call(func() { got = mathx.Beta(a, b) }); p {
		w.Violate("Beta-panic", fmt.Sprintf("Beta(%.17g, %.17g) panicked: %v", a, b, pv), c)
		return
	}
	want := ref.F64(ref.BetaBig(a, b))
	if !w.Err("Beta-vs-bigfloat-gamma-ratio", math.Abs(got-want)/want, c08Tol) {
		w.Violate("Beta-value", fmt.Sprintf("Beta(%.17g, %.17g) = %.17g, Gamma(a)Gamma(b)/Gamma(a+b) = %.17g (rel %.3g)", a, b, got, want, (got-want)/want), c)
	}
	// second opinion where math.Gamma is usable (evidence only)
	if a+b < 170 {
		g := math.Gamma(a) * math.Gamma(b) / math.Gamma(a+b)
		w.Err("reference-vs-math.Gamma-products(evidence)", math.Abs(g-want)/want, c08Tol)
	}
	if w.WantSample() {
		w.Sample(map[string]any{"op": "Beta", "a": mon.F(a), "b": mon.F(b), "got": mon.F(got), "ref": mon.F(want)})
	}
}

// Choose / Lchoose -----------------------------------------------------------------

// c08JudgeChooseNeg: for n < 0 every k satisfies "k < 0 or k > n", so the
// statement asks for Choose = 0 and Lchoose = NaN (out of range) and nothing
// may panic. Not judged on the value: k == 0 and k == n, where the documented
// early exit "k == 0 || k == n -> 1" of the library and the statement's "0 for
// k > n" / "0 for k < 0" disagree (only a panic is reported there).
func c08JudgeChooseNeg(w *mon.W, n, k int) {
	c := c08Case{Op: "choose", N: n, K: k}
	var got, lgot float64
	w.Hit("choose-negative-n")
	w.HitIf(k > n && k != 0, "choose-negative-n-k>n")
	w.HitIf(k < n, "choose-negative-n-k<n")
	w.Eval("Choose")
	pc, pv := mon.Call(func() { got = mathx.Choose(n, k) })
	if pc {
		w.Violate("Choose-panic", fmt.Sprintf("Choose(%d,%d) panicked: %v", n, k, pv), c)
	}
	w.Eval("Lchoose")
	pl, pv := mon.Call(func() { lgot = mathx.Lchoose(n, k) })
	if pl {
		w.Violate("Lchoose-panic", fmt.Sprintf("Lchoose(%d,%d) panicked: %v", n, k, pv), c)
	}
	if k == 0 || k == n {
		w.Note("choose-negative-n-value-not-judged")
		return
	}
	if !pc && got != 0 {
		w.Violate("Choose-out-of-range", fmt.Sprintf("Choose(%d,%d) = %v, must be 0 (n < 0: k is below 0 or above n)", n, k, got), c)
	}
	if !pl && !math.IsNaN(lgot) {
		w.Violate("Lchoose-out-of-range", fmt.Sprintf("Lchoose(%d,%d) = %v, must be NaN (n < 0: k is below 0 or above n)", n, k, lgot), c)
	}
}

// c08JudgeChoose judges Choose(n,k) and Lchoose(n,k) for any n <= 1000 and any k.
// bin may carry the exact binomial (computed incrementally by the caller).
func c08JudgeChoose(w *mon.W, n, k int, bin *big.Int) {
	if n > 1000 {
		return
	}
	if n < 0 {
		c08JudgeChooseNeg(w, n, k)
		return
	}
	c := c08Case{Op: "choose", N: n, K: k}
	var got, lgot, gotS float64
	w.Eval("Choose")
	if p, pv := mon.Call(func() { got = mathx.Choose(n, k) }); p {
		w.Violate("Choose-panic", fmt.Sprintf("Choose(%d,%d) panicked: %v", n, k, pv), c)
		return
	}
	w.Eval("Lchoose")
	if p, pv := mon.Call(func() { lgot = mathx.Lchoose(n, k) }); p {
		w.Violate("Lchoose-panic", fmt.Sprintf("Lchoose(%d,%d) panicked: %v", n, k, pv), c)
		return
	}
	if k < 0 || k > n {
		w.Hit("choose-out-of-range")
		if got != 0 {
			w.Violate("Choose-out-of-range", fmt.Sprintf("Choose(%d,%d) = %v, must be 0", n, k, got), c)
		}
		if !math.IsNaN(lgot) {
			w.Violate("Lchoose-out-of-range", fmt.Sprintf("Lchoose(%d,%d) = %v, must be NaN", n, k, lgot), c)
		}
		return
	}
	if bin == nil {
		bin = new(big.Int).Binomial(int64(n), int64(k))
	}
	want, _ := new(big.Float).SetInt(bin).Float64()
	lwant := ref.LnBigInt(bin)
	if n <= 20 {
		w.Hit("choose-n<=20")
		if got != want {
			w.Violate("Choose-exact", fmt.Sprintf("Choose(%d,%d) = %.17g, exact value %v", n, k, got, bin), c)
		}
	} else {
		w.Hit("choose-n>20")
		if !w.Err("Choose-vs-big.Int", math.Abs(got-want)/want, c08TolRel) {
			w.Violate("Choose-value", fmt.Sprintf("Choose(%d,%d) = %.17g, exact %.17g (rel %.3g)", n, k, got, want, (got-want)/want), c)
		}
	}
	// Lchoose = ln Choose: |error| <= 1e-10 absolute is what 1e-10 relative
	// on Choose means for its logarithm (ln(1 +- 1e-10) = +- 1e-10), plus
	// 8 ulps of ln C for the rounding of the result and of the reference
	// (<= 9.1e-13). It was 1e-10*max(1, ln C) before, up to 690 times wider:
	// a Stirling series truncated at 3.8e-10 passed. The lgamma route of the
	// pristine library is within 2.4e-12 for every n <= 1000.
	if !w.Err("Lchoose-vs-ln(big.Int)", math.Abs(lgot-lwant), c08TolRel+8*(math.Nextafter(lwant, math.Inf(1))-lwant)) {
		w.Violate("Lchoose-value", fmt.Sprintf("Lchoose(%d,%d) = %.17g, ln of exact binomial %.17g (diff %.3g)", n, k, lgot, lwant, lgot-lwant), c)
	}
	// symmetry in k and n-k
	w.Eval("Choose")
	if p, pv := mon.Call(func() { gotS = mathx.Choose(n, n-k) }); p {
		w.Violate("Choose-panic", fmt.Sprintf("Choose(%d,%d) panicked: %v", n, n-k, pv), c08Case{Op: "choose", N: n, K: n - k})
		return
	}
	if n <= 20 {
		if gotS != got {
			w.Violate("Choose-symmetry", fmt.Sprintf("Choose(%d,%d) = %.17g but Choose(%d,%d) = %.17g", n, k, got, n, n-k, gotS), c)
		}
	} else if !w.Err("Choose-symmetry", math.Abs(got-gotS)/want, c08TolRel) {
		w.Violate("Choose-symmetry", fmt.Sprintf("Choose(%d,%d) = %.17g but Choose(%d,%d) = %.17g", n, k, got, n, n-k, gotS), c)
	}
}

// Sign -------------------------------------------------------------------------------

func c08JudgeSign(w *mon.W, c c08Case) {
	x := float64(c.X)
	var got float64
	w.Eval("Sign")
	if p, pv := mon.Call(func() { got = mathx.Sign(x) }); p {
		w.Violate("Sign-panic", fmt.Sprintf("Sign(%v) panicked: %v", x, pv), c)
		return
	}
	okv := false
	switch {
	case math.IsNaN(x):
		w.Hit("sign-nan")
		okv = math.IsNaN(got)
	case x == 0:
		w.Hit("sign-zero")
		okv = got == 0
	case x < 0:
		w.HitIf(math.IsInf(x, -1), "sign-inf")
		w.HitIf(x > -2.3e-308, "sign-subnormal")
		w.Note("sign-negative")
		okv = got == -1
	default:
		w.HitIf(math.IsInf(x, 1), "sign-inf")
		w.HitIf(x < 2.3e-308, "sign-subnormal")
		w.Note("sign-positive")
		okv = got == 1
	}
	w.Distinct(mon.NewHasher().S("sign").F(x).Sum())
	if !okv {
		w.Violate("Sign", fmt.Sprintf("Sign(%v) [bits %#016x] = %v", x, math.Float64bits(x), got), c)
	}
}

// generators -----------------------------------------------------------------------

func c08Clamp(v, lo, hi float64) float64 {
	if !(v >= lo) {
		return lo
	}
	if v > hi {
		return hi
	}
	return v
}

// c08Step moves x by k ulps (k may be negative).
func c08Step(x float64, k int) float64 {
	for ; k > 0; k-- {
		x = math.Nextafter(x, math.Inf(1))
	}
	for ; k < 0; k++ {
		x = math.Nextafter(x, math.Inf(-1))
	}
	return x
}

func c08GenParam(rng *mon.Rand) float64 {
	var v float64
	switch rng.Intn(12) {
	case 10:
		v = c08GenSpecial(rng)
	case 11:
		v = c08GenNearSpecial(rng)
	case 5:
		if rng.Intn(3) == 0 {
			v = c08Lo
		} else {
			v = rng.Uniform(c08Lo, 0.1)
		}
	case 6:
		if rng.Intn(3) == 0 {
			v = c08Hi
		} else {
			v = rng.Uniform(250, c08Hi)
		}
	case 7:
		v = float64(rng.Range(1, 300))
	case 8:
		v = float64(rng.Range(0, 299)) + 0.5
	case 9:
		v = rng.Uniform(c08Lo, 3)
	default:
		v = rng.LogUniform(c08Lo, c08Hi)
	}
	return c08Clamp(v, c08Lo, c08Hi)
}

// c08SpecialParams: in-range parameter values at which an implementation is
// likely to have a shortcut or a closed form (exponential a = 1, Erlang
// integers, chi-square half-integers, the ends of the range, one ulp either
// side of 1 and 2).
var c08SpecialParams = []float64{1, 2, 3, 0.5, 1.5, 2.5, c08Lo, c08Hi, 4, 5, 10, 20, 21, 100, 170, 171, 172, 299, 299.5, 0.25, 0.75, 3.5,
	1 + 0x1p-52, 1 - 0x1p-53, 2 + 0x1p-51, 2 - 0x1p-52, 0.5 + 0x1p-53, 0.5 - 0x1p-54}

func c08GenSpecial(rng *mon.Rand) float64 {
	if rng.Intn(4) == 0 {
		return 1
	}
	return c08SpecialParams[rng.Intn(len(c08SpecialParams))]
}

// c08OffGraded is a relative offset between 1e-15 and 1e-3, graded so that
// every decade in between is drawn often.
func c08OffGraded(rng *mon.Rand) float64 {
	switch rng.Intn(4) {
	case 0:
		return rng.LogUniform(1e-15, 1e-3)
	case 1:
		return rng.LogUniform(1e-12, 1e-6)
	case 2:
		return rng.LogUniform(1e-10, 1e-7)
	default:
		return rng.Float64() * rng.Pick(1e-6, 1e-4)
	}
}

// c08NearValue moves v by a graded relative offset of either sign.
func c08NearValue(rng *mon.Rand, v float64) float64 {
	return v + rng.Sign()*c08OffGraded(rng)*v
}

// c08GenNearSpecial: a parameter in a small NEIGHBOURHOOD (1e-15 .. 1e-3
// relative, either side) of a value at which an implementation may select a
// closed form: 1, 2, 0.5, integers, half-integers. A shortcut selected by a
// tolerance comparison instead of equality is wrong there, while at the
// special value itself and one ulp away from it nothing can be seen.
func c08GenNearSpecial(rng *mon.Rand) float64 {
	var c float64
	switch rng.Intn(8) {
	case 0, 1, 2:
		c = 1
	case 3:
		c = rng.Pick(2, 0.5)
	case 4:
		c = float64(c08GenInt(rng))
	case 5:
		c = float64(c08GenInt(rng)) - 0.5
	default:
		c = rng.Pick(1.5, 2, 2.5, 3, 4, 5, 10, 20, 21, 100, 170, 171, 0.5, 0.25, 0.75)
	}
	return c08Clamp(c08NearValue(rng, c), c08Lo, c08Hi)
}

// c08OffSpecial: the relative distance of v to the nearest multiple of 1/2
// if that lies in (4 ulps, 1e-3], else 0 (a property of the input only).
func c08OffSpecial(v float64) float64 {
	r := math.Round(2*v) / 2
	if !(r >= 0.5) {
		return 0
	}
	d := math.Abs(v-r) / r
	if d <= 4*0x1p-52 || d > 1e-3 {
		return 0
	}
	return d
}

// c08IsSpecialParam: integer, half-integer, an end of the range or within
// two ulps of 1, 2 or 0.5 (a property of the input only).
func c08IsSpecialParam(v float64) bool {
	if !(v >= c08Lo && v <= c08Hi) {
		return false
	}
	if 4*v == math.Floor(4*v) || v == c08Lo || v == c08Hi {
		return true
	}
	for _, c := range []float64{0.5, 1, 2} {
		if math.Abs(v-c) <= 4*0x1p-52*c {
			return true
		}
	}
	return false
}

// c08GenLegal draws the argument that stays legal in the NaN / outside-domain
// workloads: half the time a special value, else as everywhere.
func c08GenLegal(rng *mon.Rand) float64 {
	if rng.Bool() {
		return c08GenSpecial(rng)
	}
	return c08GenParam(rng)
}

func c08GenInt(rng *mon.Rand) int {
	switch rng.Intn(6) {
	case 0:
		return rng.Range(1, 4)
	case 1:
		return rng.Range(250, 300)
	case 2:
		return rng.PickI(1, 2, 20, 21, 170, 171, 299, 300)
	default:
		return int(c08Clamp(math.Floor(rng.LogUniform(1, 301)), 1, 300))
	}
}

func c08GenAB(rng *mon.Rand) (a, b float64) {
	a, b = c08GenParam(rng), c08GenParam(rng)
	if rng.Intn(12) == 0 {
		b = a
	}
	return
}

// c08NearOffset draws a small signed offset: 0, a few ulps, up to 1e-6, or
// log-uniform down to 1e-15 (relative to scale).
func c08Near(rng *mon.Rand, centre, scale float64) float64 {
	switch rng.Intn(5) {
	case 0:
		return c08Step(centre, rng.Range(-4, 4))
	case 1:
		return centre + rng.Sign()*rng.Float64()*1e-6*scale
	case 2:
		return centre + rng.Sign()*rng.LogUniform(1e-15, 1e-3)*scale
	case 3:
		return centre + rng.Sign()*rng.LogUniform(1e-12, 1e-6)*scale
	default:
		return centre
	}
}

func c08GenBetaX(rng *mon.Rand, a, b float64) float64 {
	mean := a / (a + b)
	sd := math.Sqrt(a * b / ((a + b) * (a + b) * (a + b + 1)))
	sw := (a + 1) / (a + b + 2)
	var x float64
	switch rng.Intn(13) {
	case 0, 1:
		x = rng.Float64()
	case 2:
		x = math.Pow(10, -rng.Uniform(0, 325))
	case 3:
		x = 1 - math.Pow(10, -rng.Uniform(0, 17))
	case 4, 5:
		x = mean + sd*rng.Norm()*rng.Pick(0.01, 1, 3, 8)
	case 6, 7, 8:
		x = c08Near(rng, sw, 1)
	case 9:
		x = rng.Pick(0, math.Copysign(0, -1), 1, 0.5, 5e-324, math.Nextafter(1, 0), 1.0/3, 0.25, 0.75)
	case 10:
		x = mean + rng.Sign()*sd*rng.Uniform(5, 8)
	case 11:
		x = c08Near(rng, mean, 1)
	default:
		x = c08Near(rng, 1-sw, 1) // the switch point of the mirrored call
	}
	return c08Clamp(x, 0, 1)
}

func c08GenGammaX(rng *mon.Rand, a float64) float64 {
	sw := a + 1
	xmax := c08GammaXMax(a)
	var x float64
	switch rng.Intn(12) {
	case 0, 1:
		x = rng.Uniform(0, xmax)
	case 2:
		x = math.Pow(10, -rng.Uniform(0, 325))
	case 3, 4:
		x = a + math.Sqrt(a)*rng.Norm()*rng.Pick(0.01, 1, 3, 6)
	case 5, 6, 7:
		x = c08Near(rng, sw, sw)
	case 8:
		x = rng.Pick(0, math.Copysign(0, -1), xmax, a, sw, 5e-324, 1, math.Inf(1))
		if math.IsInf(x, 1) {
			return x // the end point x = +Inf (P = 1, Q = 0)
		}
	case 9:
		x = math.Pow(10, rng.Uniform(0, 308.2))
	case 10:
		x = rng.Uniform(a+6*math.Sqrt(a), xmax)
	default:
		x = c08Near(rng, a, a)
	}
	if !(x >= 0) {
		x = -x
	}
	if math.IsInf(x, 0) || math.IsNaN(x) {
		x = math.MaxFloat64
	}
	return x
}

// c08UniqSorted sorts and removes duplicates; -0 and +0 are different points
// (-0 first).
func c08UniqSorted(xs []float64) []float64 {
	sort.Slice(xs, func(i, j int) bool {
		if xs[i] == xs[j] {
			return math.Signbit(xs[i]) && !math.Signbit(xs[j])
		}
		return xs[i] < xs[j]
	})
	out := xs[:0]
	for i, x := range xs {
		if i == 0 || math.Float64bits(x) != math.Float64bits(xs[i-1]) {
			out = append(out, x)
		}
	}
	return out
}

// c08Cutoffs: values at which implementations like to place a cut-off
// between two evaluation methods, besides powers of two and of ten: roots of
// the machine epsilon (2^-52 and 2^-53).
var c08Cutoffs = []float64{0x1p-52, 0x1p-53, 0x1p-26, 1.0536712127723509e-08 /* sqrt(2^-53) */, math.Cbrt(0x1p-52), math.Cbrt(0x1p-53),
	0x1p-13, math.Sqrt(1.0536712127723509e-08), 1e-7, 1e-8, 1e-9, 1e-10, 1e-5, 1e-4, 1e-3, 0.01, 0.1}

// c08Centre draws the centre of a cluster of closely spaced points of a
// monotone grid on (0, hi): anywhere in the range - uniform, log-uniform over
// 1e-12..1e-6, over 1e-6..hi and over the whole range of float64 - and at
// round numbers (powers of two, powers of ten, roots of the machine
// epsilon), where a cut-off between two evaluation methods is most likely to
// sit. Nothing here depends on where the pristine library changes branch.
func c08Centre(rng *mon.Rand, hi float64, unit bool) float64 {
	var c float64
	switch rng.Intn(10) {
	case 0, 1:
		c = rng.Uniform(0, hi)
	case 2, 3:
		c = rng.LogUniform(1e-12, 1e-6)
	case 4:
		c = rng.LogUniform(1e-6, hi)
	case 5:
		c = math.Pow(10, -rng.Uniform(0, 307))
	case 6:
		c = math.Ldexp(1, -rng.Range(0, 60))
		if rng.Intn(4) == 0 {
			c = math.Ldexp(1, -rng.Range(0, 1074))
		}
	case 7:
		c, _ = strconv.ParseFloat("1e-"+strconv.Itoa(rng.Range(0, 20)), 64)
	case 8:
		c = c08Cutoffs[rng.Intn(len(c08Cutoffs))]
	default:
		if unit {
			// the mirror images: 1 - 2^-k, 1 - 10^-k
			c = 1 - math.Ldexp(1, -rng.Range(1, 53))
			if rng.Bool() {
				c = 1 - math.Pow(10, -float64(rng.Range(1, 15)))
			}
		} else {
			// small integers and powers of two above 1
			c = float64(rng.Range(1, 40))
			if rng.Bool() {
				c = math.Ldexp(1, rng.Range(0, 10))
			}
		}
	}
	if !(c <= hi) {
		c = hi * rng.Float64()
	}
	return c
}

// c08Cluster appends closely spaced points around c: c itself, its
// neighbours in float64, and points at a relative distance of 1e-16..1e-9
// either side; around a c below 1e-290 also at absolute distances of a few
// denormal steps (a relative distance means nothing there).
func c08Cluster(rng *mon.Rand, xs []float64, c float64) []float64 {
	xs = append(xs, c, c08Step(c, rng.Range(1, 3)), c08Step(c, -rng.Range(1, 3)))
	xs = append(xs, c*(1+rng.LogUniform(1e-16, 1e-9)), c*(1-rng.LogUniform(1e-16, 1e-9)))
	if rng.Intn(3) == 0 {
		xs = append(xs, c*(1+rng.LogUniform(1e-12, 1e-9)), c*(1-rng.LogUniform(1e-12, 1e-9)))
	}
	if c < 1e-290 {
		xs = append(xs, c+5e-324*float64(rng.Range(1, 1000)), c+math.Ldexp(1, -1074+rng.Range(0, 60)))
	}
	return xs
}

func c08BetaGrid(rng *mon.Rand, a, b float64) []float64 {
	sw := (a + 1) / (a + b + 2)
	mean := a / (a + b)
	xs := []float64{0, math.Copysign(0, -1), 5e-324, 1e-300, 1e-100, 1e-17, 0.5, math.Nextafter(1, 0), 1 - 1e-10, 1}
	for k := 0; k < 3; k++ {
		xs = c08Cluster(rng, xs, c08Centre(rng, 1, true))
	}
	for k := -4; k <= 4; k++ {
		xs = append(xs, c08Step(sw, k))
	}
	for k := -2; k <= 2; k++ {
		xs = append(xs, c08Step(mean, k), c08Step(0.5, k))
	}
	for k := 0; k < 12; k++ {
		xs = append(xs, rng.Float64())
	}
	for k := 0; k < 8; k++ {
		xs = append(xs, c08Near(rng, sw, 1))
	}
	for k := 0; k < 4; k++ {
		xs = append(xs, c08GenBetaX(rng, a, b))
	}
	out := xs[:0]
	for _, x := range xs {
		if x >= 0 && x <= 1 {
			out = append(out, x)
		}
	}
	return c08UniqSorted(out)
}

func c08GammaGrid(rng *mon.Rand, a float64) []float64 {
	sw := a + 1
	xmax := c08GammaXMax(a)
	xs := []float64{0, math.Copysign(0, -1), 5e-324, 1e-300, 1e-100, 1e-10, xmax, 1e5, 1e308, math.MaxFloat64, math.Inf(1)}
	for k := 0; k < 3; k++ {
		xs = c08Cluster(rng, xs, c08Centre(rng, xmax, false))
	}
	for k := -4; k <= 4; k++ {
		xs = append(xs, c08Step(sw, k))
	}
	for k := -2; k <= 2; k++ {
		xs = append(xs, c08Step(a, k))
	}
	for k := 0; k < 12; k++ {
		xs = append(xs, rng.Uniform(0, xmax))
	}
	for k := 0; k < 8; k++ {
		xs = append(xs, c08Near(rng, sw, sw))
	}
	for k := 0; k < 4; k++ {
		xs = append(xs, c08GenGammaX(rng, a))
	}
	out := xs[:0]
	for _, x := range xs {
		if x >= 0 {
			out = append(out, x)
		}
	}
	return c08UniqSorted(out)
}

// Red-team round 3: deterministic ladders. A defect confined to ONE special
// parameter pair (one special a for gamma) and a decade or two of x - e.g. a
// closed form for a = b = 1/2 that forms 2x-1 and loses x below 2^-54 - is hit
// by the random classes with a probability of a few percent per run. The
// ladders below are fixed (independent of the seed and of anything the
// pristine library does): powers of ten down to the smallest denormal, every
// power of two through the range in which 1-x, 2x-1 and 1+x stop seeing x
// (2^-40 .. 2^-70), and the mirror images 1-2^-k.
type c08LadderPt struct {
	x    float64
	kind string // 10^-k | 2^-k | 1-2^-k | 2^k | a-relative
}

func c08BetaLadder() []c08LadderPt {
	var l []c08LadderPt
	for _, k := range []int{1, 2, 3, 4, 5, 6, 7, 8, 9, 10, 11, 12, 13, 14, 15, 16, 17, 18, 19, 20,
		25, 30, 40, 50, 60, 80, 100, 125, 150, 175, 200, 225, 250, 275, 300, 307, 308, 320, 323} {
		x, _ := strconv.ParseFloat("1e-"+strconv.Itoa(k), 64)
		l = append(l, c08LadderPt{x, "10^-k"})
	}
	for k := 40; k <= 70; k++ {
		l = append(l, c08LadderPt{math.Ldexp(1, -k), "2^-k"})
	}
	for k := 10; k <= 53; k++ {
		l = append(l, c08LadderPt{1 - math.Ldexp(1, -k), "1-2^-k"})
	}
	return l
}

// c08GammaLadder: the x of one special a.
func c08GammaLadder(a float64) []c08LadderPt {
	var l []c08LadderPt
	for _, p := range c08BetaLadder() {
		if p.kind != "1-2^-k" {
			l = append(l, p)
		}
	}
	for k := -39; k <= 12; k++ {
		l = append(l, c08LadderPt{math.Ldexp(1, k), "2^k"})
	}
	for _, k := range []int{-1074, -1022, -500, -200, -100, -80, 16, 20, 30, 53, 100, 500, 1023} {
		l = append(l, c08LadderPt{math.Ldexp(1, k), "2^k"})
	}
	for _, x := range []float64{a, c08Step(a, 1), c08Step(a, -1), a + 1, c08Step(a+1, 1), c08Step(a+1, -1), a - 1, a + 2} {
		if x > 0 {
			l = append(l, c08LadderPt{x, "a-relative"})
		}
	}
	return l
}

// c08Once is a value computed once, by whichever worker needs it first.
type c08Once[T any] struct {
	once sync.Once
	v    T
}

func (o *c08Once[T]) get(f func() T) T {
	o.once.Do(func() { o.v = f() })
	return o.v
}

// c08Hunt searches for a place where the library steps against a smooth
// reference, without any assumption on where that might be. e(x) is the
// difference between the library and the cheap second opinion (mathext) at x
// (NaN: not usable there; bad: the library panicked or returned NaN, which
// the judge will report when it evaluates the point itself). Starting from
// the pair of neighbouring points of pts between which e changes most, the
// interval is halved (in the ordering of the float64 bit patterns) towards
// the half in which e changes most, down to two adjacent floats. The end
// points of the last intervals are returned, to be judged by the ordinary
// monotonicity law with its ordinary slack: the search only chooses where to
// look, and a misleading reference costs power, never soundness.
func c08Hunt(rng *mon.Rand, pts []float64, e func(x float64) (d float64, bad bool)) []float64 {
	type pe struct{ x, e float64 }
	var v []pe
	for _, x := range c08UniqSorted(pts) {
		if !(x >= 0) || math.IsInf(x, 1) || math.Signbit(x) {
			continue
		}
		d, bad := e(x)
		if bad {
			return []float64{0, x}
		}
		if !math.IsNaN(d) {
			v = append(v, pe{x, d})
		}
	}
	if len(v) < 2 {
		return nil
	}
	best, bestD := 0, -1.0
	for i := 0; i+1 < len(v); i++ {
		if d := math.Abs(v[i+1].e - v[i].e); d > bestD || (d == bestD && rng.Intn(3) == 0) {
			best, bestD = i, d
		}
	}
	lo, hi := v[best], v[best+1]
	out := []float64{lo.x, hi.x}
	for it := 0; it < 70; it++ {
		bl, bh := math.Float64bits(lo.x), math.Float64bits(hi.x)
		if bh-bl <= 1 {
			break
		}
		m := math.Float64frombits(bl + (bh-bl)/2)
		d, bad := e(m)
		out = append(out, m)
		if bad || math.IsNaN(d) {
			break
		}
		dl, dh := math.Abs(d-lo.e), math.Abs(hi.e-d)
		if dl > dh || (dl == dh && rng.Bool()) {
			hi = pe{m, d}
		} else {
			lo = pe{m, d}
		}
	}
	if len(out) > 14 {
		out = out[len(out)-14:]
	}
	return c08UniqSorted(out)
}

// c08HuntLadder: starting points of a hunt on (0, hi): a jittered ladder of
// powers of ten from 1e-300 up (coarse below 1e-20, 0.75 decades above),
// uniform points, and extra points.
func c08HuntLadder(rng *mon.Rand, hi float64, extra ...float64) []float64 {
	xs := append([]float64{0, hi}, extra...)
	top := math.Log10(hi)
	for u := -300.0; u < -20; u += 20 {
		xs = append(xs, math.Pow(10, u+rng.Uniform(0, 20)))
	}
	for u := -20.0; u < top; u += 0.75 {
		xs = append(xs, math.Pow(10, math.Min(top, u+rng.Uniform(0, 0.75))))
	}
	for k := 0; k < 8; k++ {
		xs = append(xs, rng.Uniform(0, hi))
	}
	return xs
}

// mathext start-up cross-check against the big.Float references on benign points.
func c08MathextSelfTest() error {
	for _, a := range []float64{0.5, 2, 10.5, 100} {
		for _, b := range []float64{0.7, 3, 55.5} {
			for _, x := range []float64{0.1, 0.5, 0.9} {
				v, _ := ref.BetaIncBig(x, a, b)
				if d := math.Abs(mathext.RegIncBeta(a, b, x) - ref.F64(v)); d > 1e-10 {
					return fmt.Errorf("mathext.RegIncBeta(%v,%v,%v) differs from the 384-bit series by %g", a, b, x, d)
				}
			}
		}
		for _, x := range []float64{0.1 * a, a, a + 1, 2*a + 3} {
			p, q := ref.GammaIncBig(a, x)
			if d := math.Abs(mathext.GammaIncReg(a, x) - ref.F64(p)); d > 1e-10 {
				return fmt.Errorf("mathext.GammaIncReg(%v,%v) differs from the 384-bit series by %g", a, x, d)
			}
			if d := math.Abs(mathext.GammaIncRegComp(a, x) - ref.F64(q)); d > 1e-10 {
				return fmt.Errorf("mathext.GammaIncRegComp(%v,%v) differs from the 384-bit series by %g", a, x, d)
			}
		}
	}
	return nil
}

// run --------------------------------------------------------------------------------

func c08Run(r *mon.Run) {
	r.Rule("BetaInc on (x,a,b) and GammaInc/GammaIncComp on (a,x) with a,b in [0.05,300] log-uniform plus edges (0.05, <0.1, >250, 300), integers, half-integers; x uniform and concentrated at 0, 1, the mean, the branch switch (a+1)/(a+b+2) resp. a+1 (0, a few ulps, 1e-15..1e-3 either side), tails, tiny/subnormal, for gamma up to a+40*sqrt(a)+40 and out to MaxFloat64. Bulk points judged against mathext with a 384-bit series adjudicator; separate classes judged directly against closed forms (integer a,b; integer and half-integer a) and against the 384-bit series. Laws: range, end points, I_x(a,b)+I_{1-x}(b,a)=1 (x snapped so that 1-x is exact), P+Q=1, monotone on sorted grids including ulp-chains across the switch, NaN rules. Choose/Lchoose: every 0<=k<=n<=1000 plus out-of-range k against big.Int; negative n (every k out of range: 0 / NaN, no panic; k=0 and k=n not judged on value). Parameters also drawn from a list of special values (1, 2, 3, 0.5, 1.5, small integers and half-integers, 0.05, 300, 1 and 2 and 0.5 +- an ulp), in particular for the argument that stays legal in the NaN / outside-domain workloads; x = 0 and x = +Inf (gamma), x = 0 and x = 1 (beta) are end points of every class and grid. Round 2: every monotone grid also carries clusters of closely spaced points (float64 neighbours, 1e-16..1e-9 relative, denormal steps near 0) around centres drawn over the whole x range (uniform, log-uniform 1e-12..1e-6, 1e-6..max, 1e-307..1) and at round numbers (powers of two and ten, roots of the machine epsilon, 1-2^-k), independent of where the pristine library changes branch; hunted grids: from a ladder of points the interval over which (library - mathext) changes most is bisected down to adjacent floats and the last brackets are judged by the same monotonicity law (the search only chooses where to look); a and b (beta) and a (gamma) are drawn in a graded neighbourhood (1e-15..1e-3 relative, either side) of 1, 2, 0.5, integers and half-integers in every accuracy class; x = -0 is a point of BetaInc (value 0, symmetry with x = 1). Round 3: deterministic ladders - every pair of the special parameter values (beta; every special a for gamma) x a fixed ladder of x (10^-k down to 1e-323, every 2^-k for k = 40..70, 1-2^-k for k = 10..53, the decades outside 1e-13..1e-20 on every second pair; for gamma also 2^k, k = -39..12 and further out, and a, a+-ulp, a+-1, a+1+-ulp, a+2), each point judged against the 384-bit series with the stated 1e-9; the fixed points of the monotone grids (1e-17, 1e-100, 1e-300, 5e-324, 1-1e-10, 1-ulp, ... resp. 1e-10, 1e5, 1e308, MaxFloat64, a+40sqrt(a)+40, ...) with parameters drawn as on the grids are also judged for accuracy (mathext + adjudicator, one in 32 directly against the 384-bit series). Beta against a 384-bit Gamma ratio. Sign on specials and random bit patterns. Non-trivial = hits a class; distinct by hash of (op, arguments).")
	r.Assume("x = NaN is not counted as 'x outside [0,1]' for BetaInc (the statement lists NaN arguments only for the gamma functions)",
		"x = +Inf is the end point of x >= 0 for GammaInc/GammaIncComp: P = 1, Q = 0 (to 1e-9 in the accuracy and monotone classes, exactly in special-x, as since the D20 repair)",
		"for n < 0 every k is 'k<0 or k>n': Choose must be 0 and Lchoose NaN, except k == 0 and k == n, where the library documents 1 / 0 and the value is not judged",
		"the symmetry law is checked on x for which 1-x is exactly representable; elsewhere fl(1-x) is a different argument",
		"monotonicity is checked with a slack for rounding noise of min(1.2e-13 + 16*2^-52*M, 1e-10), M = sum of magnitudes of the log-space terms of the prefactor (<= 2.1e-11 at a=b=300); 1.2e-13 = 4 x the 3e-14 stop criterion of the series / continued fractions",
		"Lchoose tolerance 1e-10 + 8 ulp(ln C) absolute (1e-10 relative on Choose is 1e-10 absolute on its logarithm)")
	r.Gate("beta-near-gamma-overflow", "beta-switch-below", "beta-switch-above", "beta-small-param", "beta-large-param",
		"beta-x=0", "beta-x=1", "beta-x-outside", "beta-x-just-outside", "beta-monotone-across-switch",
		"gamma-switch-below", "gamma-switch-above", "gamma-small-a", "gamma-large-a", "gamma-cf-large-a", "gamma-series-large-a",
		"gamma-monotone-across-switch", "gamma-a<=0", "gamma-a=0", "gamma-x<0", "gamma-a-NaN", "gamma-x-NaN", "gamma-x-huge",
		"closed-form-int-beta", "closed-form-int-gamma", "closed-form-half-gamma", "bigfloat-beta", "bigfloat-gamma",
		"choose-n<=20", "choose-n>20", "choose-out-of-range", "beta-fn-half-integers", "beta-fn-gamma-overflows-float64",
		"sign-nan", "sign-zero", "sign-inf", "sign-subnormal",
		// legal arguments at special values in the NaN / outside-domain workloads; end points with integer parameters
		"gamma-nan-special-legal-a", "gamma-a=1-x<0", "gamma-a=1-x-NaN", "gamma-int-a-x<0", "gamma-nan-legal-x-end-point",
		"beta-x-outside-special-params", "beta-x-outside-param=1", "beta-x-outside-a=b=1",
		"gamma-x=0", "gamma-x=0-int-a", "gamma-x=+Inf", "gamma-x=+Inf-int-a", "gamma-a=1", "gamma-a-ulps-from-1",
		"beta-end-point-int-params", "beta-end-point-param=1", "beta-param=1",
		"choose-negative-n", "choose-negative-n-k>n", "choose-negative-n-k<n",
		// red-team round 2: close pairs anywhere on the monotone grids, hunted grids, parameters in a graded
		// neighbourhood of the special values, x = -0 for BetaInc
		"beta-monotone-close-pair-off-switch", "beta-monotone-close-pair-small-x", "beta-monotone-hunted-grid",
		"gamma-monotone-close-pair-off-switch", "gamma-monotone-close-pair-small-x", "gamma-monotone-hunted-grid",
		"beta-param-near-special", "beta-param-within-1e-7-of-special", "beta-param-near-1", "bigfloat-beta-param-near-special",
		"gamma-a-near-special", "gamma-a-within-1e-7-of-special", "gamma-a-near-1", "bigfloat-gamma-a-near-special",
		"beta-x=-0",
		// red-team round 3: deterministic ladders of x on every pair of special parameters; fixed grid points judged for accuracy
		"beta-special-pair-ladder", "beta-special-pair-x=10^-k", "beta-special-pair-x=2^-k", "beta-special-pair-x=1-2^-k",
		"beta-special-pair-x-below-2^-53", "beta-special-pair-a=b", "beta-special-pair-a=b=1/2-x-below-2^-53",
		"gamma-special-a-ladder", "gamma-special-a-x=10^-k", "gamma-special-a-x=2^k", "gamma-special-a-x-relative-to-a", "gamma-special-a-x-below-2^-53",
		"beta-grid-point-accuracy", "beta-grid-point-accuracy-bigfloat", "gamma-grid-point-accuracy", "gamma-grid-point-accuracy-bigfloat")
	if err := ref.C08SelfTest(); err != nil {
		r.Inconclusive("reference self-test failed: " + err.Error())
		return
	}
	if err := c08MathextSelfTest(); err != nil {
		r.Inconclusive("reference self-test failed: " + err.Error())
		return
	}
	atomic.StoreInt64(&c08AdjLeft, int64(r.Pick(4_000, 40_000)))
	atomic.StoreInt64(&c08AdjSkipped, 0)

	// --- BetaInc
	r.Parallel("betainc-mathext", r.Pick(400_000, 3_000_000), func(w *mon.W, i int) {
		a, b := c08GenAB(w.Rng)
		x := c08GenBetaX(w.Rng, a, b)
		c08JudgeBetaInc(w, c08Case{Op: "betainc", Mode: "fast", X: mon.F(x), A: mon.F(a), B: mon.F(b)})
	})
	r.Parallel("betainc-bigfloat", r.Pick(6_000, 60_000), func(w *mon.W, i int) {
		a, b := c08GenAB(w.Rng)
		x := c08GenBetaX(w.Rng, a, b)
		c08JudgeBetaInc(w, c08Case{Op: "betainc", Mode: "big", X: mon.F(x), A: mon.F(a), B: mon.F(b)})
	})
	r.Parallel("betainc-integer", r.Pick(6_000, 60_000), func(w *mon.W, i int) {
		a, b := float64(c08GenInt(w.Rng)), float64(c08GenInt(w.Rng))
		if i%6 == 5 {
			// a neighbour of the integer point instead (judged against the
			// 384-bit series: the closed form does not apply)
			if w.Rng.Bool() {
				a = c08Clamp(c08NearValue(w.Rng, a), c08Lo, c08Hi)
			} else {
				b = c08Clamp(c08NearValue(w.Rng, b), c08Lo, c08Hi)
			}
		}
		x := c08GenBetaX(w.Rng, a, b)
		c08JudgeBetaInc(w, c08Case{Op: "betainc", Mode: "closed", X: mon.F(x), A: mon.F(a), B: mon.F(b)})
	})
	r.Parallel("betainc-monotone", r.Pick(20_000, 200_000), func(w *mon.W, i int) {
		a, b := c08GenAB(w.Rng)
		xs := c08BetaGrid(w.Rng, a, b)
		c08JudgeBetaMono(w, c08Case{Op: "betainc-mono", A: mon.F(a), B: mon.F(b), Xs: mon.Fs(xs)})
	})
	r.Parallel("betainc-monotone-hunt", r.Pick(4_000, 40_000), func(w *mon.W, i int) {
		a, b := c08GenAB(w.Rng)
		mean := a / (a + b)
		sd := math.Sqrt(a * b / ((a + b) * (a + b) * (a + b + 1)))
		pts := c08HuntLadder(w.Rng, 1, 0.5, mean)
		for k := 0; k < 12; k++ {
			pts = append(pts, mean+sd*w.Rng.Uniform(-8, 8))
			if k < 8 {
				pts = append(pts, 1-math.Pow(10, -w.Rng.Uniform(0, 16)))
			}
		}
		in := pts[:0]
		for _, x := range pts {
			if x >= 0 && x <= 1 {
				in = append(in, x)
			}
		}
		xs := c08Hunt(w.Rng, in, func(x float64) (float64, bool) {
			var v, m float64
			if p, _ := mon.Call(func() { v = mathx.BetaInc(x, a, b) }); p || math.IsNaN(v) {
				return 0, true
			}
			if p, _ := mon.Call(func() { m = mathext.RegIncBeta(a, b, x) }); p {
				return math.NaN(), false
			}
			return v - m, false
		})
		c08JudgeBetaMono(w, c08Case{Op: "betainc-mono", Mode: "hunt", A: mon.F(a), B: mon.F(b), Xs: mon.Fs(xs)})
	})
	// every pair of special parameters x the fixed ladder of x, against the 384-bit series
	{
		sp := c08SpecialParams
		lad := c08BetaLadder()
		lgs := make([]c08Once[*big.Float], len(sp))
		pairs := make([]c08Once[*ref.BetaABPre], len(sp)*len(sp))
		pxs := make([]c08Once[*ref.BetaXPre], len(lad))
		lg := func(k int) *big.Float { return lgs[k].get(func() *big.Float { return ref.LnGamma(ref.NF(sp[k])) }) }
		// every pair gets every 2^-k, every 1-2^-k and the decades 1e-13..1e-20;
		// the other decades go to every second pair, alternating (cost)
		type pl struct{ pi, li int }
		var cases []pl
		for pi := range pairs {
			for li, pt := range lad {
				if pt.kind == "10^-k" && !(pt.x >= 1e-20 && pt.x <= 1e-13) && (pi+li)%2 == 1 {
					continue
				}
				cases = append(cases, pl{pi, li})
			}
		}
		r.Parallel("betainc-special-ladder", len(cases), func(w *mon.W, i int) {
			pi, li := cases[i].pi, cases[i].li
			ia, ib := pi/len(sp), pi%len(sp)
			a, b, pt := sp[ia], sp[ib], lad[li]
			w.Hit("beta-special-pair-ladder")
			w.Hit("beta-special-pair-x=" + pt.kind)
			w.HitIf(pt.x < 0x1p-53, "beta-special-pair-x-below-2^-53")
			w.HitIf(a == b, "beta-special-pair-a=b")
			w.HitIf(a == 0.5 && b == 0.5 && pt.x < 0x1p-53, "beta-special-pair-a=b=1/2-x-below-2^-53")
			c08JudgeBetaIncRef(w, c08Case{Op: "betainc", Mode: "big", X: mon.F(pt.x), A: mon.F(a), B: mon.F(b)}, func() float64 {
				pab := pairs[pi].get(func() *ref.BetaABPre { return ref.NewBetaABPre(a, b, lg(ia), lg(ib)) })
				px := pxs[li].get(func() *ref.BetaXPre { return ref.NewBetaXPre(pt.x) })
				v, _ := ref.BetaIncBigPre(px, pab)
				return ref.F64(v)
			})
		})
	}
	// the fixed points of the monotone grids, judged for accuracy (the grids
	// themselves judge monotonicity, range and end points only): parameters as
	// on the grids, bulk against mathext + adjudicator, one in 32 directly
	// against the 384-bit series
	betaFixed := []float64{1e-17, 1e-100, 1e-300, 5e-324, 1 - 1e-10, math.Nextafter(1, 0), 0.5, 0, math.Copysign(0, -1), 1}
	r.Parallel("betainc-grid-points", r.Pick(16_000, 160_000), func(w *mon.W, i int) {
		a, b := c08GenAB(w.Rng)
		x := betaFixed[i%len(betaFixed)]
		mode := "fast"
		if (i/len(betaFixed))%32 == 0 {
			mode = "big"
			w.Hit("beta-grid-point-accuracy-bigfloat")
		}
		w.Hit("beta-grid-point-accuracy")
		c08JudgeBetaInc(w, c08Case{Op: "betainc", Mode: mode, X: mon.F(x), A: mon.F(a), B: mon.F(b)})
	})
	outside := []float64{-5e-324, -1e-300, -1e-17, -0.5, -1, -2, -1e300, math.Inf(-1),
		math.Nextafter(1, 2), 1 + 1e-15, 1.5, 2, 1e300, math.Inf(1)}
	r.Parallel("betainc-outside", r.Pick(4_000, 40_000), func(w *mon.W, i int) {
		a, b := c08GenLegal(w.Rng), c08GenLegal(w.Rng)
		if w.Rng.Intn(12) == 0 {
			b = a
		}
		var x float64
		switch {
		case i%3 == 0:
			x = outside[(i/3)%len(outside)]
		case i%3 == 1:
			x = -math.Pow(10, w.Rng.Uniform(-320, 300))
		default:
			x = 1 + math.Pow(10, w.Rng.Uniform(-15.9, 300))
		}
		c08JudgeBetaOutside(w, c08Case{Op: "betainc-outside", X: mon.F(x), A: mon.F(a), B: mon.F(b)})
	})

	// --- GammaInc / GammaIncComp
	r.Parallel("gammainc-mathext", r.Pick(400_000, 3_000_000), func(w *mon.W, i int) {
		a := c08GenParam(w.Rng)
		x := c08GenGammaX(w.Rng, a)
		c08JudgeGammaInc(w, c08Case{Op: "gammainc", Mode: "fast", A: mon.F(a), X: mon.F(x)})
	})
	r.Parallel("gammainc-bigfloat", r.Pick(6_000, 60_000), func(w *mon.W, i int) {
		a := c08GenParam(w.Rng)
		x := c08GenGammaX(w.Rng, a)
		c08JudgeGammaInc(w, c08Case{Op: "gammainc", Mode: "big", A: mon.F(a), X: mon.F(x)})
	})
	r.Parallel("gammainc-closed-form", r.Pick(6_000, 60_000), func(w *mon.W, i int) {
		a := float64(c08GenInt(w.Rng))
		if i%2 == 1 {
			a -= 0.5
		}
		if i%6 >= 4 {
			// a neighbour of the integer / half-integer (384-bit series)
			a = c08Clamp(c08NearValue(w.Rng, a), c08Lo, c08Hi)
		}
		x := c08GenGammaX(w.Rng, a)
		c08JudgeGammaInc(w, c08Case{Op: "gammainc", Mode: "closed", A: mon.F(a), X: mon.F(x)})
	})
	r.Parallel("gammainc-monotone", r.Pick(20_000, 200_000), func(w *mon.W, i int) {
		a := c08GenParam(w.Rng)
		xs := c08GammaGrid(w.Rng, a)
		c08JudgeGammaMono(w, c08Case{Op: "gammainc-mono", A: mon.F(a), Xs: mon.Fs(xs)})
	})
	r.Parallel("gammainc-monotone-hunt", r.Pick(4_000, 40_000), func(w *mon.W, i int) {
		a := c08GenParam(w.Rng)
		pts := c08HuntLadder(w.Rng, c08GammaXMax(a), a, a+1)
		for k := 0; k < 12; k++ {
			pts = append(pts, a+math.Sqrt(a)*w.Rng.Uniform(-6, 12))
		}
		upper := i%2 == 1 // follow the error of GammaIncComp instead of GammaInc
		xs := c08Hunt(w.Rng, pts, func(x float64) (float64, bool) {
			var v, m float64
			if p, _ := mon.Call(func() {
				if upper {
					v = mathx.GammaIncComp(a, x)
				} else {
					v = mathx.GammaInc(a, x)
				}
			}); p || math.IsNaN(v) {
				return 0, true
			}
			if p, _ := mon.Call(func() {
				if upper {
					m = mathext.GammaIncRegComp(a, x)
				} else {
					m = mathext.GammaIncReg(a, x)
				}
			}); p {
				return math.NaN(), false
			}
			return v - m, false
		})
		c08JudgeGammaMono(w, c08Case{Op: "gammainc-mono", Mode: "hunt", A: mon.F(a), Xs: mon.Fs(xs)})
	})
	// every special a x the fixed ladder of x, against the 384-bit series
	{
		sp := c08SpecialParams
		lads := make([][]c08LadderPt, len(sp))
		off := make([]int, len(sp)+1)
		for k, a := range sp {
			lads[k] = c08GammaLadder(a)
			off[k+1] = off[k] + len(lads[k])
		}
		lg1 := make([]c08Once[*big.Float], len(sp))
		r.Parallel("gammainc-special-ladder", off[len(sp)], func(w *mon.W, i int) {
			k := sort.SearchInts(off, i+1) - 1
			a, pt := sp[k], lads[k][i-off[k]]
			w.Hit("gamma-special-a-ladder")
			switch pt.kind {
			case "10^-k":
				w.Hit("gamma-special-a-x=10^-k")
			case "a-relative":
				w.Hit("gamma-special-a-x-relative-to-a")
			default:
				w.Hit("gamma-special-a-x=2^k")
			}
			w.HitIf(pt.x < 0x1p-53, "gamma-special-a-x-below-2^-53")
			c08JudgeGammaIncLg(w, c08Case{Op: "gammainc", Mode: "big", A: mon.F(a), X: mon.F(pt.x)},
				lg1[k].get(func() *big.Float { return ref.LnGamma(ref.Add(ref.NF(a), ref.NF(1))) }))
		})
	}
	gammaFixed := []float64{1e-10, 1e-100, 1e-300, 5e-324, 1e5, 1e308, math.MaxFloat64, 0, math.Copysign(0, -1), math.Inf(1)}
	r.Parallel("gammainc-grid-points", r.Pick(16_000, 160_000), func(w *mon.W, i int) {
		a := c08GenParam(w.Rng)
		x := gammaFixed[i%len(gammaFixed)]
		if i%(4*len(gammaFixed)) >= 3*len(gammaFixed) && x == 1e5 {
			x = c08GammaXMax(a) // the fixed point of the grids that depends on a
		}
		mode := "fast"
		if (i/len(gammaFixed))%32 == 0 {
			mode = "big"
			w.Hit("gamma-grid-point-accuracy-bigfloat")
		}
		w.Hit("gamma-grid-point-accuracy")
		c08JudgeGammaInc(w, c08Case{Op: "gammainc", Mode: mode, A: mon.F(a), X: mon.F(x)})
	})
	nan := math.NaN()
	badA := []float64{0, math.Copysign(0, -1), -5e-324, -1e-300, -0.05, -0.5, -1, -2, -300, -1e300, math.Inf(-1)}
	badX := []float64{-5e-324, -1e-300, -1e-17, -0.5, -1, -300, -1e300, math.Inf(-1)}
	r.Parallel("gammainc-nan", r.Pick(4_000, 40_000), func(w *mon.W, i int) {
		rng := w.Rng
		a := c08GenLegal(rng)
		x := c08GenGammaX(rng, a)
		if rng.Intn(3) == 0 {
			x = rng.Pick(0, math.Copysign(0, -1), math.Inf(1), 1, a, a+1, 5e-324, math.MaxFloat64)
		}
		switch i % 8 {
		case 0:
			a = badA[(i/8)%len(badA)]
		case 1:
			x = badX[(i/8)%len(badX)]
		case 2:
			a = nan
		case 3:
			x = nan
		case 4:
			a, x = badA[rng.Intn(len(badA))], badX[rng.Intn(len(badX))]
		case 5:
			a = -math.Pow(10, rng.Uniform(-320, 300))
		case 6:
			x = -math.Pow(10, rng.Uniform(-320, 300))
		default:
			a, x = rng.Pick(nan, 0, -1), rng.Pick(nan, -1, math.Inf(1), 0)
			if !(a <= 0 || x < 0 || math.IsNaN(a) || math.IsNaN(x)) {
				a = nan
			}
		}
		c08JudgeGammaNaN(w, c08Case{Op: "gammainc-nan", A: mon.F(a), X: mon.F(x)})
	})

	// --- Beta
	r.Parallel("beta", r.Pick(8_000, 100_000), func(w *mon.W, i int) {
		a, b := c08GenAB(w.Rng)
		if i%8 == 3 {
			// around the overflow threshold of the float64 gamma function
			// (Gamma(x) = +Inf from x ~ 171.62; Gamma(a)*Gamma(b) overflows
			// earlier): the switch-over points of any implementation that
			// mixes direct and logarithmic evaluation
			rng := w.Rng
			b = rng.Pick(rng.Uniform(169, 174), rng.Uniform(171.0, 171.7), rng.Uniform(140, 172))
			a = rng.Pick(rng.LogUniform(0.05, 2), rng.LogUniform(0.05, 0.3), 171.62-b+rng.Uniform(-0.3, 0.3), rng.Uniform(1, 40))
			if a < c08Lo {
				a = c08Lo
			}
			if rng.Bool() {
				a, b = b, a
			}
			w.Hit("beta-near-gamma-overflow")
		}
		c08JudgeBeta(w, c08Case{Op: "beta", A: mon.F(a), B: mon.F(b)})
	})

	// --- Choose / Lchoose: exhaustive
	r.Exhaustive("Choose, Lchoose: every 0<=k<=n<=1000, and k in {-1,-2,-n-1,n+1,n+2,2n+1,MinInt64,2^24,-1000,2000} for every n (negative n: a list of 28 n with about 110 k each, not exhaustive)")
	r.Parallel("choose-exhaustive", 1001, func(w *mon.W, n int) {
		bin := big.NewInt(1)
		for k := 0; k <= n; k++ {
			c08JudgeChoose(w, n, k, bin)
			// C(n,k+1) = C(n,k) (n-k)/(k+1), exact
			bin = new(big.Int).Mul(bin, big.NewInt(int64(n-k)))
			bin.Quo(bin, big.NewInt(int64(k+1)))
		}
		for _, k := range []int{-1, -2, -n - 1, n + 1, n + 2, 2*n + 1, math.MinInt64, 1 << 24, -1000, 2000} {
			c08JudgeChoose(w, n, k, nil)
		}
		w.Distinct(mon.NewHasher().S("choose-row").I(n).Sum())
	})

	// --- Choose / Lchoose with negative n: every k is out of range
	negN := []int{-1, -2, -3, -4, -5, -6, -7, -10, -19, -20, -21, -22, -33, -34, -63, -64, -65, -170, -171, -999, -1000, -1001,
		-1 << 31, -1<<31 - 1, -1 << 32, -1 << 53, math.MinInt64 + 1, math.MinInt64}
	r.Parallel("choose-negative-n", len(negN), func(w *mon.W, i int) {
		n := negN[i]
		// A call that never returns cannot be decided by a monitor (watchdog
		// -> inconclusive), so pairs on which the product form of the binomial
		// (a loop over n-k+1..n in wrapping int arithmetic) would run for more
		// than 2^25 steps are left out: e.g. (-1, MinInt64), (-1, MaxInt64).
		ks := []int{-1, -2, -3, -5, -20, -21, -1000, 0, 1, 2, 3, 4, 5, 10, 20, 21, 22, 170, 171, 1000, 1001, 1 << 20, 1 << 24,
			math.MaxInt64, math.MinInt64, math.MinInt64 + 1, n, n + 1, n + 2, n + 3, n / 2}
		if n > math.MinInt64+8 {
			ks = append(ks, n-1, n-2, n-3, n-5)
		}
		if n >= -2000 {
			ks = append(ks, -n, -n-1, -n+1, -2*n)
		}
		if n > math.MinInt64/2 {
			ks = append(ks, 2*n, 2*n-1, 2*n+1)
		}
		for j := 0; j < 24; j++ {
			ks = append(ks, w.Rng.Range(-30, 30), w.Rng.Range(-1<<20, 1<<20), -int(w.Rng.Uint64()>>1)-1)
		}
		for _, k := range ks {
			if lo := n - (k - 1); lo <= n && uint64(n)-uint64(lo) > 1<<25 {
				w.Note("choose-negative-n-pair-left-out")
				continue
			}
			c08JudgeChoose(w, n, k, nil)
		}
		w.Distinct(mon.NewHasher().S("choose-neg-row").I(n).Sum())
	})

	// --- Sign
	specials := []float64{0, math.Copysign(0, -1), 1, -1, 5e-324, -5e-324, 2.2250738585072014e-308, -2.2250738585072014e-308,
		math.MaxFloat64, -math.MaxFloat64, math.Inf(1), math.Inf(-1), nan, math.Float64frombits(0xfff8000000000001),
		math.Float64frombits(0x7ff0000000000001), math.Float64frombits(0xfff0000000000001), 0.5, -0.5, 1e-300, -1e-300}
	r.Parallel("sign", r.Pick(50_000, 500_000), func(w *mon.W, i int) {
		var x float64
		switch {
		case i < len(specials):
			x = specials[i]
		case i%16 == 0: // NaN payloads
			x = math.Float64frombits(0x7ff0000000000000 | w.Rng.Uint64()&0x800fffffffffffff | 1)
		case i%16 == 1: // subnormals
			x = math.Float64frombits(w.Rng.Uint64() & 0x800fffffffffffff)
		default:
			x = math.Float64frombits(w.Rng.Uint64())
		}
		c08JudgeSign(w, c08Case{Op: "sign", X: mon.F(x)})
	})

	if n := atomic.LoadInt64(&c08AdjSkipped); n > 0 {
		r.Inconclusive(fmt.Sprintf("adjudication budget exhausted: %d points on which the library and mathext disagree were not judged", n))
	}
	// Inputs the statement does not cover as read here (see assumptions):
	r.Gate("special-x", "special-x-int-a", "special-x-a=1", "special-x-half-int-a", "special-x-special-params")
	r.Parallel("special-x", r.Pick(2000, 20000), func(w *mon.W, i int) {
		rng := w.Rng
		a, b := c08GenLegal(rng), c08GenLegal(rng)
		switch i % 4 {
		case 0:
			a = float64(c08GenInt(rng))
		case 1:
			a, b = float64(c08GenInt(rng)), float64(c08GenInt(rng))
		case 2:
			a = float64(c08GenInt(rng)) - 0.5
		}
		c08JudgeSpecialX(w, c08Case{Op: "special-x", A: mon.F(a), B: mon.F(b)})
	})
}
