package props

import (
	"math"
	"sort"

	"verifmon/mon"
	"verifmon/ref"
)

// uCache is shared by C01, C02 and C03: enumeration up to N=14, the 128-bit
// generating-function DP above.
var uCache = ref.NewUCache(14)

// pooledTies returns the tie vector of the pooled sample (ascending ranks)
// and whether any value is tied.
func pooledTies(x1, x2 []float64) (T []int, ties bool) {
	all := append(append([]float64(nil), x1...), x2...)
	sort.Float64s(all)
	for i := 0; i < len(all); {
		j := i
		for j < len(all) && all[j] == all[i] {
			j++
		}
		T = append(T, j-i)
		if j-i > 1 {
			ties = true
		}
		i = j
	}
	return
}

// twoUDef is twice the pair-count statistic by its definition.
func twoUDef(x1, x2 []float64) int {
	t := 0
	for _, a := range x1 {
		for _, b := range x2 {
			if a > b {
				t += 2
			} else if a == b {
				t++
			}
		}
	}
	return t
}

// incValues returns k strictly increasing finite float64 values from one of
// several families (integers, fractional, negative, huge offsets).
func incValues(rng *mon.Rand, k int) []float64 {
	for try := 0; try < 8; try++ {
		v := make([]float64, k)
		kind := rng.Intn(10)
		var x float64
		switch kind {
		case 0:
			x = 1
		case 1:
			x = -float64(rng.Intn(2 * k))
		case 2:
			x = rng.Uniform(-1, 1)
		case 3:
			x = rng.Sign() * rng.LogUniform(1e3, 1e12)
		case 4:
			x = -rng.LogUniform(1e-9, 1e-3)
		case 5:
			x = rng.Uniform(-1e-3, 1e-3)
		case 6: // distinct but nearly equal: neighbouring floats, a few ulps apart
			x = rng.Pick(0.3, 1, -1, 1e6, -7.25e-5, rng.Uniform(-100, 100))
		case 7: // consecutive integers that include 0 (the samples then hold +0 and -0, which are equal)
			x = -float64(rng.Intn(k))
		case 8: // the ends of the float64 range, including +-MaxFloat64 themselves
			if rng.Bool() {
				x = -math.MaxFloat64
			} else {
				// descend from MaxFloat64 in steps of 1..3 ulps, then reverse
				t := math.MaxFloat64
				for i := k - 1; i >= 0; i-- {
					v[i] = t
					for u := 1 + rng.Intn(3); u > 0; u-- {
						t = math.Nextafter(t, 0)
					}
				}
				return v
			}
		case 9: // subnormals and the smallest normals
			x = float64(rng.Intn(5)) * math.SmallestNonzeroFloat64 * rng.Pick(1, -1, 1e3)
		}
		ok := true
		for i := 0; i < k; i++ {
			v[i] = x
			var step float64
			switch kind {
			case 0, 1:
				step = float64(1 + rng.Intn(3))
			case 2:
				step = rng.LogUniform(1e-6, 10)
			case 3:
				step = math.Abs(x) * rng.LogUniform(1e-9, 1e-1)
			case 4:
				step = rng.LogUniform(1e-12, 1e-3)
			case 6, 8, 9:
				nx := x
				for u := 1 + rng.Intn(3); u > 0; u-- {
					nx = math.Nextafter(nx, math.Inf(1))
				}
				step = nx - x
			case 7:
				step = 1
			default:
				step = rng.LogUniform(1e-300, 1e-3)
			}
			nx := x + step
			if !(nx > x) || math.IsInf(nx, 0) {
				ok = false
				break
			}
			x = nx
		}
		if ok {
			return v
		}
	}
	v := make([]float64, k)
	for i := range v {
		v[i] = float64(i + 1)
	}
	return v
}

// samplesFromAlloc builds the two samples for tie vector T and allocation r
// (r[k] of the T[k] copies of value k go to the first sample), shuffled.
func samplesFromAlloc(rng *mon.Rand, T, r []int, vals []float64) (x1, x2 []float64) {
	for k, t := range T {
		for j := 0; j < r[k]; j++ {
			x1 = append(x1, vals[k])
		}
		for j := r[k]; j < t; j++ {
			x2 = append(x2, vals[k])
		}
	}
	flipZeros(rng, x1)
	flipZeros(rng, x2)
	rng.ShuffleF(x1)
	rng.ShuffleF(x2)
	return
}

func isPalindrome(T []int) bool {
	for i, j := 0, len(T)-1; i < j; i, j = i+1, j-1 {
		if T[i] != T[j] {
			return false
		}
	}
	return true
}

func sumInts(xs []int) int {
	s := 0
	for _, x := range xs {
		s += x
	}
	return s
}

// flipZeros gives every zero of xs a random sign: +0 and -0 are equal values
// (they tie with each other), although their bit patterns differ.
func flipZeros(rng *mon.Rand, xs []float64) {
	for i, x := range xs {
		if x == 0 && rng.Bool() {
			xs[i] = math.Copysign(0, -1)
		}
	}
}
