package props

import (
	"encoding/json"
	"fmt"
	"math"
	"sort"

	"github.com/aclements/go-moremath/stats"

	"verifmon/mon"
	"verifmon/ref"
)

// C14 — histograms conserve samples, bin them by their stated edges, and
// rank correctly.
//
// Three kinds of case:
//   "lin"  a LinearHist(min,max,nbins) fed a stream of values,
//   "log"  a LogHist(b,m,max) fed a stream of positive values,
//   "fake" a harness-defined Histogram (a bare count vector with a counting
//          BinToValue) queried by HistogramQuantile / HistogramIQR.

type c14Case struct {
	Kind  string `json:"kind"`
	Min   mon.F  `json:"min"` // lin
	Max   mon.F  `json:"max"` // lin: max; log: the max argument
	NBins int    `json:"nbins"`
	B     int    `json:"b"` // log
	M     int    `json:"m"`
	// Xs is the stream of added values.
	Xs []mon.F `json:"xs"`
	// Qs are the quantile arguments, evaluated after the last Add and, when
	// QEvery>0, after every QEvery-th Add. QDerive adds rank-boundary
	// arguments j/total derived from the count vector at that moment.
	Qs      []mon.F `json:"qs"`
	QEvery  int     `json:"qevery"`
	QDerive bool    `json:"qderive"`
	IQR     bool    `json:"iqr"`
	// Grid: run the BinToValue checks, after GridAt values have been added
	// (0: on the fresh histogram; len(Xs): after the stream, before the final
	// queries; larger: after the final queries). Without Grid the harness
	// itself calls BinToValue only after the last Add and the last query.
	Grid   bool `json:"grid"`
	GridAt int  `json:"gridat"`
	// Batch: Counts() is read after every Batch-th Add (and before every
	// checkpoint) instead of after every Add; 0 and 1 mean every Add.
	Batch int `json:"batch"`
	// NoInit: the harness does not read Counts() of the fresh histogram; the
	// first read comes after the first batch of Adds and is judged against
	// the all-zero start (a fresh histogram is empty by definition).
	NoInit bool `json:"noinit"`
	// fake
	Under  uint64   `json:"under"`
	Counts []uint64 `json:"counts"`
	Over   uint64   `json:"over"`
	Fn     int      `json:"fn"`
}

func init() {
	mon.Register(&mon.Prop{ID: "C14", Run: c14Run, Replay: func(w *mon.W, v *mon.ViolationRec) {
		var c c14Case
		if json.Unmarshal(v.Case, &c) == nil {
			c14Judge(w, c)
		}
	}})
}

func c14Judge(w *mon.W, c c14Case) {
	if c.Kind == "fake" {
		c14JudgeFake(w, c)
		return
	}
	c14JudgeHist(w, c)
}

// ---------------------------------------------------------------------------
// M-step: harness-defined histogram with call budgets.

type c14Sentinel string

const c14Budget = 4096 // calls of one kind per query; the rank walk needs O(nbins <= 50)

// c14BudgetFor: the budget of a wide harness histogram grows with the bin
// count (64 calls per bin); up to 64 bins it is the flat 4096. One Counts() and one
// BinToValue() call per bin, several times over, stay inside it.
func c14BudgetFor(nbins int) int {
	if b := 64 * nbins; b > c14Budget {
		return b
	}
	return c14Budget
}

type c14Fake struct {
	under, over uint
	counts      []uint
	fn          int
	budget      int
	nCounts     int
	nB2V        int
	nAdd        int
}

func (f *c14Fake) Add(x float64) {
	f.nAdd++
	panic(c14Sentinel("a query called Histogram.Add"))
}

func (f *c14Fake) Counts() (uint, []uint, uint) {
	f.nCounts++
	if f.nCounts > f.budget {
		panic(c14Sentinel(fmt.Sprintf("step budget exceeded: more than %d Counts() calls in one query", f.budget)))
	}
	return f.under, f.counts, f.over
}

func c14FakeValue(fn int, t float64) float64 {
	switch fn {
	case 1:
		return 3 * math.Exp2(t/4)
	case 2:
		return -50 + t/8
	}
	return 100 + 10*t
}

func (f *c14Fake) BinToValue(t float64) float64 {
	f.nB2V++
	if f.nB2V > f.budget {
		panic(c14Sentinel(fmt.Sprintf("step budget exceeded: more than %d BinToValue() calls in one query", f.budget)))
	}
	return c14FakeValue(f.fn, t)
}

// ---------------------------------------------------------------------------
// Quantile judge, shared by the three kinds.

type c14QCtx struct {
	h           stats.Histogram
	under, over uint64
	counts      []uint64
	val         func(bin int, k, c uint64) float64 // reference BinToValue(bin+k/c)
	tol         func(v float64) float64
	mk          func(qs []float64, iqr bool) c14Case
	desc        string
	pre         func()        // before every query
	post        func() string // integrity after every query ("" = fine)
}

func c14PanicKind(v any, kind string) string {
	if _, ok := v.(c14Sentinel); ok {
		return "step-budget"
	}
	return kind
}

func c14JudgeQ(w *mon.W, x *c14QCtx, qsIn []float64, iqr bool) {
	qs := append([]float64(nil), qsIn...)
	sort.Float64s(qs)
	total := x.under + x.over
	for _, c := range x.counts {
		total += c
	}
	w.HitIf(total == 0, "empty-histogram-queried")
	lastV, lastQ := math.NaN(), math.NaN()
	// Is every answer on this histogram explained by one and the same rank
	// reading? Each call is judged against both readings (the statement's
	// English does not say 0- or 1-based), but it defines one rule: answers
	// that need the 0-based reading for one q and the 1-based reading for
	// another are a violation.
	cons0, cons1 := true, true
	otherViolation := false
	var not0, not1 string // first answer the 0-based / 1-based reading cannot explain
	var not0q, not1q float64
	explained := func(q, got float64, e0, e1 bool) {
		if !e0 && cons0 {
			not0, not0q = fmt.Sprintf("Q(%v)=%v", q, got), q
		}
		if !e1 && cons1 {
			not1, not1q = fmt.Sprintf("Q(%v)=%v", q, got), q
		}
		cons0, cons1 = cons0 && e0, cons1 && e1
	}
	defer func() {
		switch {
		case len(qs) == 0:
		case cons0 && cons1:
			w.Note("readings:indistinguishable")
		case cons1:
			w.Note("readings:1-based-throughout")
		case cons0:
			w.Note("readings:0-based-throughout")
		default:
			w.Note("readings:mixed-within-one-histogram")
			if !otherViolation {
				w.Violate("quantile-mixed-readings", fmt.Sprintf("%s: no single rank reading explains the answers on this histogram (total %d): %s fits only the 1-based reading of the floor(q*total)-th smallest sample, %s only the 0-based one", x.desc, total, not0, not1), x.mk([]float64{not0q, not1q}, false))
			}
		}
	}()
	for _, q := range qs {
		nanOK, ivs, amb, rd := ref.QuantileRefR(x.under, x.counts, x.over, q)
		w.HitIf(q == 0, "q=0")
		w.HitIf(q == 1, "q=1")
		w.HitIf(x.under > 0 && len(ivs) > 0, "under>0-quantile-in-bins")
		w.HitIf(x.under > 0 && len(ivs) > 0 && !nanOK, "under>0-quantile-in-bins-only")
		w.HitIf(x.over > 0 && len(ivs) > 0, "over>0-quantile-in-bins")
		w.HitIf(len(ivs) == 0, "ranked-sample-outside-bins")
		w.HitIf(len(ivs) > 0 && !nanOK, "ranked-sample-inside-bins")
		w.HitIf(q == 1 && x.over == 0 && len(ivs) > 0, "q=1-no-overflow")
		if nb := len(x.counts); nb > 50 {
			// wide histograms: where the ranked sample sits (reference side only)
			for _, iv := range ivs {
				w.HitIf(iv.Bin >= 64, "wide:ranked-sample-beyond-bin-64")
				w.HitIf(iv.Bin >= 1024, "wide:ranked-sample-beyond-bin-1024")
				w.HitIf(iv.Bin >= 4096, "wide:ranked-sample-beyond-bin-4096")
				w.HitIf(iv.K == iv.C-1 && iv.Bin+1 < nb && x.counts[iv.Bin+1] == 0, "wide:ranked-sample-last-of-bin-empty-bin-above")
				w.HitIf(iv.K == 0 && iv.Bin > 0 && x.counts[iv.Bin-1] == 0, "wide:ranked-sample-first-of-bin-empty-bin-below")
				w.HitIf(iv.Bin == nb-1, "wide:ranked-sample-in-last-bin")
				w.HitIf(2*iv.Bin > nb, "wide:ranked-sample-in-upper-half-of-bins")
			}
			w.HitIf(q == 1 && x.over == 0 && x.counts[nb-1] == 0 && total > 0, "wide:q=1-top-bin-empty")
			w.HitIf(q > 0.5 && len(ivs) > 0, "wide:q>1/2-in-bins")
		}
		if amb {
			w.Ambiguous()
			w.Note("rank-product-near-integer")
		}
		var got float64
		w.Eval("HistogramQuantile")
		if x.pre != nil {
			x.pre()
		}
		if p, v := mon.Call(func() { got = stats.HistogramQuantile(x.h, q) }); p {
			w.Violate(c14PanicKind(v, "panic-quantile"), fmt.Sprintf("%s: HistogramQuantile(q=%v) panicked: %v", x.desc, q, v), x.mk([]float64{q}, false))
			otherViolation = true
			continue
		}
		if x.post != nil {
			if s := x.post(); s != "" {
				w.Violate("quantile-mutates", fmt.Sprintf("%s: HistogramQuantile(q=%v): %s", x.desc, q, s), x.mk([]float64{q}, false))
				otherViolation = true
				return
			}
		}
		if math.IsNaN(got) {
			explained(q, got, rd.NaN0, rd.NaN1)
			if !nanOK {
				otherViolation = true
				w.Violate("quantile-nan", fmt.Sprintf("%s: HistogramQuantile(q=%v)=NaN but the floor(q*%d)-th smallest sample is binned under both rank readings (%s)", x.desc, q, total, c14Ivs(x, ivs)), x.mk([]float64{q}, false))
			}
			continue
		}
		// a number: must fall into the rank interval of some reading
		best, bestTol := math.Inf(1), 1.0
		in0, in1 := false, false
		for _, iv := range ivs {
			lo := x.val(iv.Bin, iv.K, iv.C)
			hi := x.val(iv.Bin, iv.K+1, iv.C)
			t := math.Max(x.tol(lo), x.tol(hi))
			e := math.Max(math.Max(lo-got, got-hi), 0)
			if e <= t {
				in0, in1 = in0 || !iv.OneBased, in1 || iv.OneBased
			}
			if e/t < best/bestTol {
				best, bestTol = e, t
			}
		}
		for _, iv := range append(append([]ref.QInterval(nil), rd.Extra0...), rd.Extra1...) {
			// the reading's sample does not exist (q=1 0-based, q*total<1
			// 1-based): clamping to the last / first sample is not a switch of
			// reading
			lo := x.val(iv.Bin, iv.K, iv.C)
			hi := x.val(iv.Bin, iv.K+1, iv.C)
			if math.Max(math.Max(lo-got, got-hi), 0) <= math.Max(x.tol(lo), x.tol(hi)) {
				in0, in1 = in0 || !iv.OneBased, in1 || iv.OneBased
			}
		}
		explained(q, got, in0, in1)
		if len(ivs) == 0 {
			otherViolation = true
			w.Violate("quantile-number", fmt.Sprintf("%s: HistogramQuantile(q=%v)=%v but the floor(q*%d)-th smallest sample is in the under/over count under both rank readings (want NaN)", x.desc, q, got, total), x.mk([]float64{q}, false))
		} else if !w.Err("quantile", best, bestTol) {
			otherViolation = true
			w.Violate("quantile-value", fmt.Sprintf("%s: HistogramQuantile(q=%v)=%.17g outside every accepted rank interval %s (NaN accepted: %v)", x.desc, q, got, c14Ivs(x, ivs), nanOK), x.mk([]float64{q}, false))
		}
		if !math.IsNaN(lastV) && got < lastV-math.Max(x.tol(got), x.tol(lastV)) {
			otherViolation = true
			w.Violate("quantile-monotone", fmt.Sprintf("%s: HistogramQuantile(q=%v)=%.17g < HistogramQuantile(q=%v)=%.17g", x.desc, q, got, lastQ, lastV), x.mk([]float64{lastQ, q}, false))
		}
		lastV, lastQ = got, q
	}
	if iqr {
		var q25, q75, iq float64
		w.Eval("HistogramIQR")
		if x.pre != nil {
			x.pre()
		}
		if p, v := mon.Call(func() { iq = stats.HistogramIQR(x.h) }); p {
			w.Violate(c14PanicKind(v, "panic-iqr"), fmt.Sprintf("%s: HistogramIQR panicked: %v", x.desc, v), x.mk(nil, true))
			return
		}
		if x.pre != nil {
			x.pre()
		}
		p1, _ := mon.Call(func() { q25 = stats.HistogramQuantile(x.h, 0.25) })
		if x.pre != nil {
			x.pre()
		}
		p2, _ := mon.Call(func() { q75 = stats.HistogramQuantile(x.h, 0.75) })
		if p1 || p2 {
			return // reported by the quantile judge (0.25 and 0.75 are always among the qs of an IQR case)
		}
		want := q75 - q25
		bad := math.IsNaN(want) != math.IsNaN(iq)
		if !bad && !math.IsNaN(want) {
			bad = !w.Err("IQR", math.Abs(iq-want), x.tol(q25)+x.tol(q75))
		}
		w.HitIf(math.IsNaN(want), "IQR-NaN")
		w.HitIf(!math.IsNaN(want), "IQR-number")
		if bad {
			w.Violate("iqr", fmt.Sprintf("%s: HistogramIQR=%v but Q(0.75)-Q(0.25)=%v-%v=%v", x.desc, iq, q75, q25, want), x.mk(nil, true))
		}
	}
}

func c14Ivs(x *c14QCtx, ivs []ref.QInterval) string {
	s := ""
	for _, iv := range ivs {
		s += fmt.Sprintf("[bin %d sample %d of %d: %.17g..%.17g]", iv.Bin, iv.K, iv.C, x.val(iv.Bin, iv.K, iv.C), x.val(iv.Bin, iv.K+1, iv.C))
	}
	if s == "" {
		s = "(none)"
	}
	return s
}

// c14CountsStr prints a count vector; a wide one (more than 64 bins) as its
// size and its occupied bins, the first 12 of them spelled out.
func c14CountsStr(cs []uint64) string {
	if len(cs) <= 64 {
		return fmt.Sprint(cs)
	}
	occ, s := 0, ""
	for i, c := range cs {
		if c > 0 {
			if occ < 12 {
				s += fmt.Sprintf(" %d:%d", i, c)
			}
			occ++
		}
	}
	if occ > 12 {
		s += " ..."
	}
	return fmt.Sprintf("[%d bins, %d occupied, bin:count%s]", len(cs), occ, s)
}

// c14DerivedQs: rank-boundary arguments j/total around the under/bins and
// bins/over transitions and the ends.
func c14DerivedQs(under, over, total uint64) []float64 {
	if total == 0 {
		return nil
	}
	var out []float64
	add := func(j int64) {
		if j >= 0 && uint64(j) <= total {
			q := float64(j) / float64(total)
			// the boundary itself, one ulp either side, and a little further
			// off (a rank "epsilon" would move these across the integer)
			out = append(out, q, math.Nextafter(q, 0), math.Nextafter(q, 2), q*(1-1e-10), q*(1-3e-13))
		}
	}
	u, e := int64(under), int64(total-over)
	for _, j := range []int64{1, u - 1, u, u + 1, u + 2, e - 1, e, e + 1, int64(total) - 1, int64(total) / 2} {
		add(j)
	}
	return out
}

// ---------------------------------------------------------------------------
// fake histograms

func c14JudgeFake(w *mon.W, c c14Case) {
	n := len(c.Counts)
	f := &c14Fake{under: uint(c.Under), over: uint(c.Over), fn: c.Fn, counts: make([]uint, n), budget: c14BudgetFor(n)}
	for i, v := range c.Counts {
		f.counts[i] = uint(v)
	}
	saved := append([]uint(nil), f.counts...)
	scale := math.Max(math.Abs(c14FakeValue(c.Fn, 0)), math.Abs(c14FakeValue(c.Fn, float64(n))))
	x := &c14QCtx{h: f, under: c.Under, over: c.Over, counts: c.Counts,
		desc: fmt.Sprintf("harness histogram{under=%d counts=%s over=%d fn=%d}", c.Under, c14CountsStr(c.Counts), c.Over, c.Fn),
		val: func(bin int, k, cc uint64) float64 {
			return c14FakeValue(c.Fn, float64(bin)+float64(k)/float64(cc))
		},
		tol: func(v float64) float64 { return 1e-12 * scale },
		mk: func(qs []float64, iqr bool) c14Case {
			cc := c
			cc.Qs, cc.IQR, cc.QDerive = mon.Fs(qs), iqr, false
			return cc
		},
		pre: func() { f.nCounts, f.nB2V = 0, 0 },
		post: func() string {
			if f.nAdd > 0 {
				return "the query called Add"
			}
			if len(f.counts) != len(saved) {
				return "count slice resized"
			}
			for i := range saved {
				if f.counts[i] != saved[i] {
					return fmt.Sprintf("the query changed counts[%d] from %d to %d in the slice returned by Counts()", i, saved[i], f.counts[i])
				}
			}
			return ""
		},
	}
	total := c.Under + c.Over
	nonEmptyBins := 0
	for _, v := range c.Counts {
		total += v
		if v > 0 {
			nonEmptyBins++
		}
	}
	w.HitIf(c.Under > 0, "fake:under>0")
	w.HitIf(c.Over > 0, "fake:over>0")
	w.HitIf(n == 0, "fake:no-bins")
	w.HitIf(nonEmptyBins < n, "fake:empty-bin")
	w.HitIf(nonEmptyBins > 1, "fake:several-bins-occupied")
	c14WideClasses(w, "fake", c.Counts, total)
	qs := mon.Un(c.Qs)
	if c.QDerive {
		qs = append(qs, c14DerivedQs(c.Under, c.Over, total)...)
	}
	c14JudgeQ(w, x, qs, c.IQR)
	h := mon.NewHasher().S("fake").U(c.Under).U(c.Over).I(c.Fn).I(n)
	for _, v := range c.Counts {
		h = h.U(v)
	}
	w.Distinct(h.Fs(qs).Sum())
	if w.WantSample() && n > 0 && total > 0 {
		w.Sample(map[string]any{"kind": "fake", "under": c.Under, "counts": c.Counts, "over": c.Over, "queries": len(qs)})
	}
}

// c14WideClasses: size classes of a histogram state with more than 50 bins or
// at least 2^16 samples (from the count vector of the reference side).
func c14WideClasses(w *mon.W, kind string, counts []uint64, total uint64) {
	n := len(counts)
	w.HitIf(total >= 1<<16, "wide:"+kind+"-total>=2^16")
	w.HitIf(total >= 1<<32, "wide:"+kind+"-total>=2^32")
	if n <= 50 {
		return
	}
	w.Hit("wide:" + kind + "-bins>50")
	w.HitIf(n > 64, "wide:"+kind+"-bins>64")
	w.HitIf(n >= 1000, "wide:"+kind+"-bins>=1000")
	w.HitIf(n >= 4096, "wide:"+kind+"-bins>=4096")
	w.HitIf(n >= 10000, "wide:"+kind+"-bins>=10000")
	w.HitIf(n&(n-1) == 0 || (n-1)&(n-2) == 0 || n%1000 <= 1, "wide:"+kind+"-bins-at-or-one-past-round-number")
	occ, gaps := 0, 0 // gaps: occupied bins with an empty bin directly above
	for i, c := range counts {
		if c > 0 {
			occ++
			if i+1 < n && counts[i+1] == 0 {
				gaps++
			}
		}
	}
	w.HitIf(occ == n, "wide:"+kind+"-dense-every-bin-occupied")
	w.HitIf(occ > 0 && 4*occ <= n, "wide:"+kind+"-sparse-under-quarter-occupied")
	w.HitIf(gaps >= 8, "wide:"+kind+"-8-or-more-gaps-above-occupied-bins")
	w.HitIf(total > 0 && counts[n-1] == 0, "wide:"+kind+"-top-bin-empty")
}

// ---------------------------------------------------------------------------
// library histograms

// c14Snap reads the counters through Counts() into a private vector
// [under, bins..., over] (the returned slice aliases internal state).
func c14Snap(h stats.Histogram) (vec []uint64, panicked bool, pv any) {
	panicked, pv = mon.Call(func() {
		u, cs, o := h.Counts()
		vec = make([]uint64, 0, len(cs)+2)
		vec = append(vec, uint64(u))
		for _, c := range cs {
			vec = append(vec, uint64(c))
		}
		vec = append(vec, uint64(o))
	})
	return
}

func c14SlotName(s, n int) string {
	switch {
	case s < 0:
		return "under"
	case s >= n:
		return "over"
	}
	return fmt.Sprintf("bin %d", s)
}

func c14JudgeHist(w *mon.W, c c14Case) {
	lin := c.Kind == "lin"
	min, max := float64(c.Min), float64(c.Max)
	var h stats.Histogram
	var desc, op string
	if lin {
		desc = fmt.Sprintf("LinearHist(%v,%v,%d)", min, max, c.NBins)
		op = "LinearHist"
	} else {
		desc = fmt.Sprintf("LogHist(%d,%d,%v)", c.B, c.M, max)
		op = "LogHist"
	}
	base := c
	base.Xs, base.Qs, base.QEvery, base.QDerive, base.IQR, base.Grid = nil, nil, 0, false, false, false

	w.Eval("New" + op)
	if p, v := mon.Call(func() {
		if lin {
			h = stats.NewLinearHist(min, max, c.NBins)
		} else {
			h = stats.NewLogHist(c.B, float64(c.M), max)
		}
	}); p {
		w.Violate("panic-new", fmt.Sprintf("%s panicked: %v", desc, v), base)
		return
	}
	// The start state. Normally read from the fresh histogram. With NoInit the
	// histogram under observation is not read before the first Add: a
	// LinearHist starts as NBins+2 zeros; the bin count of a LogHist is not
	// fixed by the statement and is read from a second instance built with
	// the same arguments.
	var cur []uint64
	countsRead := !c.NoInit
	if c.NoInit && lin && c.NBins >= 1 {
		cur = make([]uint64, c.NBins+2)
	} else {
		probe := h
		if c.NoInit {
			if p, v := mon.Call(func() {
				if lin {
					probe = stats.NewLinearHist(min, max, c.NBins)
				} else {
					probe = stats.NewLogHist(c.B, float64(c.M), max)
				}
			}); p {
				w.Violate("panic-new", fmt.Sprintf("%s panicked: %v", desc, v), base)
				return
			}
		}
		var p bool
		var pv any
		cur, p, pv = c14Snap(probe)
		w.Eval(op + ".Counts")
		if p {
			w.Violate("panic-counts", fmt.Sprintf("%s.Counts() panicked: %v", desc, pv), base)
			return
		}
	}
	n := len(cur) - 2
	var hr *ref.HistRef
	if lin {
		if n != c.NBins {
			w.Violate("shape", fmt.Sprintf("%s has %d bins", desc, n), base)
			return
		}
		hr = ref.NewLinRef(min, max, n)
	} else {
		nExp := int(math.Ceil(float64(c.M) * math.Log(max) / math.Log(float64(c.B))))
		if n < nExp-1 || n > nExp+1 {
			w.Note("log:bin-count-differs-from-ceil(m*log_b(max))")
		}
		if n < 1 || n > 5000 {
			// the statement does not fix the bin count of a LogHist; without a
			// bin there is nothing to judge
			w.Note("log:skipped-no-bins")
			return
		}
		hr = ref.NewLogRef(c.B, c.M, n)
	}
	for i, v := range cur {
		if v != 0 {
			w.Violate("not-empty", fmt.Sprintf("fresh %s has counter[%s]=%d", desc, c14SlotName(i-1, n), v), base)
			return
		}
	}
	w.HitIf(hr.Dyadic, "lin:dyadic-shape")
	w.HitIf(n == 1, "one-bin")
	w.HitIf(n == 50, "fifty-bins")

	xs := mon.Un(c.Xs)
	qs := mon.Un(c.Qs)
	base.QEvery, base.Batch = c.QEvery, c.Batch // they shape the call history
	var width float64                           // one bin width below the first edge starts here
	if lin {
		width = min - (max-min)/float64(n)
	} else {
		width = math.Pow(float64(c.B), -1/float64(c.M))
	}
	w.HitIf(!lin && hr.Max >= 0x1p63, "log:top-edge-beyond-2^63")
	w.HitIf(!lin && hr.Max >= 1e30, "log:top-edge-beyond-1e30")
	w.HitIf(lin && max-min > 3.6e306, "lin:range-beyond-3.6e306")

	// Phase of the harness's own BinToValue calls. Until the grid has run the
	// harness does not call BinToValue at all (a histogram is normally filled
	// before anyone asks for an edge); the bracket checks of the values added
	// so far are kept and made when the grid runs, or at the very end.
	gridAt := -1
	if c.Grid {
		gridAt = c.GridAt
		if gridAt < 0 {
			gridAt = 0
		}
	}
	gridDone := false
	// hist is the replayable case for a violation seen after k Adds.
	hist := func(k int) c14Case {
		cc := base
		cc.Xs = mon.Fs(xs[:k])
		if gridDone {
			cc.Grid, cc.GridAt = true, gridAt
		}
		return cc
	}
	type pend struct {
		x     float64
		slot  int
		k     int
		exact bool
	}
	var pending []pend
	bracket := func(k int) bool {
		// the library's own stated edges must bracket every value as well
		for _, pd := range pending {
			var e0, e1 float64
			w.Eval(op + ".BinToValue")
			if p, v := mon.Call(func() { e0, e1 = h.BinToValue(float64(pd.slot)), h.BinToValue(float64(pd.slot+1)) }); p {
				w.Violate("panic-bintovalue", fmt.Sprintf("%s.BinToValue(%d) panicked: %v", desc, pd.slot, v), hist(k))
				return false
			}
			t := 0.0
			if !pd.exact {
				t = math.Max(hr.Tol(e0), hr.Tol(e1))
			}
			if !(e0-t <= pd.x && pd.x < e1+t) {
				w.Violate("bracket", fmt.Sprintf("%s: Add(%.17g) (value #%d) went to bin %d but BinToValue(%d)=%.17g, BinToValue(%d)=%.17g do not bracket it", desc, pd.x, pd.k, pd.slot, pd.slot, e0, pd.slot+1, e1), hist(k))
				return false
			}
		}
		pending = pending[:0]
		return true
	}
	grid := func(k int) bool {
		gridDone = true
		L := len(xs)
		if gridAt > L {
			gridAt = L + 1 // after the final queries
		}
		w.HitIf(k == 0 && L > 0, "grid:on-fresh-histogram")
		w.HitIf(k > 0 && k < L, "grid:mid-stream")
		w.HitIf(k == L && L > 0 && c.GridAt <= L, "grid:after-stream")
		w.HitIf(k == L && L > 0 && c.GridAt > L, "grid:after-final-queries")
		return c14JudgeGrid(w, h, hr, desc, op, hist(k)) && bracket(k)
	}

	runQ := func(k int) {
		// k values have been added
		x := &c14QCtx{h: h, under: cur[0], over: cur[n+1], counts: cur[1 : n+1],
			desc: fmt.Sprintf("%s after %d Adds {under=%d counts=%s over=%d}", desc, k, cur[0], c14CountsStr(cur[1:n+1]), cur[n+1]),
			val:  hr.ValueFrac,
			tol:  hr.Tol,
			mk: func(qq []float64, iqr bool) c14Case {
				cc := hist(k)
				cc.Qs, cc.IQR = mon.Fs(qq), iqr
				return cc
			},
			post: func() string {
				now, p, pv := c14Snap(h)
				if p {
					return fmt.Sprintf("Counts() panicked: %v", pv)
				}
				if len(now) != len(cur) {
					return "bin count changed"
				}
				for i := range now {
					if now[i] != cur[i] {
						return fmt.Sprintf("the query changed counter[%s] from %d to %d", c14SlotName(i-1, n), cur[i], now[i])
					}
				}
				return ""
			},
		}
		if n > 50 || k >= 1<<16 {
			c14WideClasses(w, c.Kind, cur[1:n+1], uint64(k))
		}
		all := qs
		if n > 50 {
			all = append(append([]float64(nil), qs...), c14BinEndQs(mon.NewRand(mon.NewHasher().S(desc).I(k).Sum()), cur[0], cur[1:n+1], uint64(k))...)
		}
		if c.QDerive {
			all = append(append([]float64(nil), qs...), c14DerivedQs(cur[0], cur[n+1], uint64(k))...)
		}
		c14JudgeQ(w, x, all, c.IQR)
	}

	// verify reads Counts() after the Adds xs[from:to] and compares the change
	// with the reference slots of those values.
	type slotted struct {
		slot, alt int
		exact     bool
	}
	var sl []slotted
	verify := func(from, to int) bool {
		after, p, pv := c14Snap(h)
		w.Eval(op + ".Counts")
		if p {
			w.Violate("panic-counts", fmt.Sprintf("%s.Counts() panicked after Add(%v): %v", desc, xs[to-1], pv), hist(to))
			return false
		}
		if len(after) != len(cur) && !countsRead {
			// first read of this histogram
			if lin {
				w.Violate("shape", fmt.Sprintf("%s has %d bins (first Counts() after %d Adds)", desc, len(after)-2, to), hist(to))
			} else {
				// the statement does not fix the bin count of a LogHist
				w.Note("log:skipped-bin-count-differs-between-instances")
			}
			return false
		}
		countsRead = true
		if len(after) != len(cur) {
			w.Violate("shape", fmt.Sprintf("%s: Add changed the number of bins from %d to %d (values #%d..#%d)", desc, n, len(after)-2, from, to-1), hist(to))
			return false
		}
		if to-from == 1 {
			x, k := xs[from], from
			slot, alt, exact := sl[0].slot, sl[0].alt, sl[0].exact
			// conservation: exactly one counter, by exactly one
			obs, nchanged, badDelta := -2, 0, false
			for i := range after {
				if after[i] != cur[i] {
					nchanged++
					obs = i - 1
					if after[i] != cur[i]+1 {
						badDelta = true
					}
				}
			}
			if nchanged != 1 || badDelta {
				w.Violate("conservation", fmt.Sprintf("%s: Add(%v) (value #%d) changed %d counters (before %v, after %v)", desc, x, k, nchanged, cur, after), hist(to))
				return false
			}
			if obs != slot && obs != alt {
				lo, hi := math.Inf(-1), math.Inf(1)
				if slot >= 0 {
					lo = hr.Edge(slot)
				}
				if slot < n {
					hi = hr.Edge(slot + 1)
				}
				w.Violate("bin", fmt.Sprintf("%s: Add(%.17g) (value #%d) incremented %s; reference: %s, edges [%.17g, %.17g) (window %s)", desc, x, k, c14SlotName(obs, n), c14SlotName(slot, n), lo, hi, c14Win(hr, exact)), hist(to))
				return false
			}
		} else {
			// a batch: no counter may go down, the increments add up to the
			// number of Adds, and they can be matched to the reference slots
			// (a value in an edge window counts for either neighbour)
			w.Hit("counts-read-per-batch")
			delta := make([]int64, n+2)
			var sum int64
			for i := range after {
				delta[i] = int64(after[i]) - int64(cur[i])
				if after[i] < cur[i] {
					w.Violate("conservation", fmt.Sprintf("%s: counter[%s] went from %d to %d over the Adds #%d..#%d", desc, c14SlotName(i-1, n), cur[i], after[i], from, to-1), hist(to))
					return false
				}
				sum += delta[i]
			}
			if sum != int64(to-from) {
				w.Violate("conservation", fmt.Sprintf("%s: %d Adds (values #%d..#%d) changed the counters by %d in total (before %v, after %v)", desc, to-from, from, to-1, sum, cur, after), hist(to))
				return false
			}
			fixed := make([]int64, n+2)
			amb := make([]int64, n+2) // amb[e]: values in the window of edge e (slots e-1 and e)
			for _, t := range sl {
				if t.slot == t.alt {
					fixed[t.slot+1]++
				} else if t.slot > t.alt {
					amb[t.slot]++
				} else {
					amb[t.alt]++
				}
			}
			left, bad := int64(0), -2
			for i := 0; i <= n+1 && bad == -2; i++ {
				need := delta[i] - fixed[i] - left
				avail := int64(0)
				if i <= n {
					avail = amb[i]
				}
				if need < 0 || need > avail {
					bad = i - 1
				}
				left = avail - need
			}
			if bad != -2 {
				want := make([]int64, n+2)
				copy(want, fixed)
				shown := fmt.Sprint(xs[from:to])
				if to-from > 6 {
					shown = fmt.Sprintf("%v...", xs[from:from+6])
				}
				w.Violate("bin", fmt.Sprintf("%s: the %d Adds #%d..#%d %s changed the counters [under bins... over] by %v; the reference puts %v there (plus, per edge, %v values within the edge window), mismatch at %s", desc, to-from, from, to-1, shown, delta, want, amb[:n+1], c14SlotName(bad, n)), hist(to))
				return false
			}
		}
		for i, t := range sl {
			if t.slot == t.alt && t.slot >= 0 && t.slot < n {
				pending = append(pending, pend{xs[from+i], t.slot, from + i, t.exact})
			}
		}
		sl = sl[:0]
		cur = after
		w.HitIf(cur[0] > 0, "under>0")
		w.HitIf(cur[n+1] > 0, "over>0")
		if gridDone {
			return bracket(to)
		}
		return true
	}

	if len(xs) == 0 {
		w.Hit("empty-stream")
	}
	w.HitIf(len(xs) == 500, "stream-of-500")
	w.HitIf(len(xs) >= 10000, "wide:stream>=10000")
	w.HitIf(len(xs) > 1<<16, "wide:stream>2^16")
	w.HitIf(gridAt < 0 && len(xs) > 0, "grid:never")
	batch := c.Batch
	if batch < 1 {
		batch = 1
	}
	if gridAt == 0 {
		if !grid(0) {
			return
		}
	}
	from := 0
	pre := "log:"
	if lin {
		pre = "lin:"
	}
	onlyZeros := true // every value added so far is 0 or -0
	for k, x := range xs {
		w.Eval(op + ".Add")
		slot, alt, exact := hr.Slot(x)
		sl = append(sl, slotted{slot, alt, exact})
		// classes: from the value and the reference only
		w.HitIf(!gridDone, "add-before-any-harness-bintovalue")
		w.HitIf(!countsRead, "add-before-any-counts-read")
		w.HitIf(!countsRead && !gridDone, "add-to-untouched-histogram")
		w.HitIf(math.Abs(x) > 1e306, pre+"sample-beyond-1e306")
		w.HitIf(lin && math.IsInf(x/((max-min)/float64(n))-min/((max-min)/float64(n)), 0), "lin:bin-index-overflows-float64")
		w.HitIf(!lin && x > 0 && x < 1e-300, "log:sample-below-1e-300")
		w.HitIf(!lin && x == 0, "log:zero-sample")
		// zero (the zero value of any remembered "last sample"), first Adds and
		// repeats: from the stream and the reference slot of the value only
		w.HitIf(x == 0 && slot != 0 && alt != 0, pre+"zero-sample-outside-first-bin")
		w.HitIf(k == 0 && x == 0, pre+"first-sample-zero")
		w.HitIf(k == 0 && x == 0 && slot != 0 && alt != 0, pre+"first-sample-zero-outside-first-bin")
		w.HitIf(k > 0 && x == 0 && onlyZeros && slot != 0 && alt != 0, pre+"zero-after-only-zeros-outside-first-bin")
		w.HitIf(k == 0 && math.Abs(x) == math.MaxFloat64, pre+"first-sample-extreme")
		w.HitIf(k > 0 && x == xs[k-1], pre+"sample-repeats-previous")
		onlyZeros = onlyZeros && x == 0
		w.HitIf(!lin && x < 0, "log:negative-sample")
		if slot == alt {
			w.HitIf(slot == -1 && x > width, pre+"below-first-edge-within-width")
			w.HitIf(slot == -1 && x <= width, pre+"far-below")
			w.HitIf(slot == n, pre+"above-last-edge")
			w.HitIf(lin && slot == n && (x-max)/(max-min) > 1e20, "lin:above-by-more-than-1e20-ranges")
			w.HitIf(slot == 0, "first-bin")
			w.HitIf(slot == n-1, "last-bin")
			w.HitIf(!lin && slot >= 0 && slot < n && x >= 0x1p63, "log:binned-value-beyond-2^63")
			if !lin && x > 0 {
				// sharp although close: inside the former flat 1e-12 window
				for _, i := range []int{slot, slot + 1} {
					if i >= 0 && i <= n {
						if e := hr.Edge(i); math.Abs(x-e) <= 1e-12*e {
							w.Hit("log:sharp-within-1e-12-of-edge")
							w.HitIf(x < e, "log:sharp-within-1e-12-below-edge")
						}
					}
				}
			}
			if exact {
				t := (x - min) / ((max - min) / float64(n))
				if t == math.Floor(t) && t >= 0 && t <= float64(n) {
					w.Hit("exact-edge-dyadic")
					w.HitIf(t == float64(n), "top-edge-exact")
					w.HitIf(t == 0, "bottom-edge-exact")
				} else if u := (math.Nextafter(x, math.Inf(1)) - min) / ((max - min) / float64(n)); u == math.Floor(u) && u >= 0 && u <= float64(n) {
					w.Hit("one-ulp-below-edge-dyadic")
				}
			}
		} else {
			w.Ambiguous()
			w.Note(pre + "value-in-edge-window")
		}
		if p, v := mon.Call(func() { h.Add(x) }); p {
			w.Violate("panic-add", fmt.Sprintf("%s: Add(%v) (value #%d) panicked: %v", desc, x, k, v), hist(k+1))
			return
		}
		checkpoint := c.QEvery > 0 && (k+1)%c.QEvery == 0 && k+1 < len(xs)
		gridNow := !gridDone && gridAt == k+1 && k+1 < len(xs)
		if (k+1-from) >= batch || checkpoint || gridNow || k+1 == len(xs) {
			if !verify(from, k+1) {
				return
			}
			from = k + 1
		}
		if gridNow {
			if !grid(k + 1) {
				return
			}
		}
		if checkpoint {
			runQ(k + 1)
		}
	}
	if !gridDone && gridAt >= 0 && gridAt <= len(xs) {
		if !grid(len(xs)) {
			return
		}
	}
	if len(qs) > 0 || c.QDerive || c.IQR {
		runQ(len(xs))
	}
	if !gridDone && gridAt >= 0 {
		if !grid(len(xs)) {
			return
		}
	}
	if !bracket(len(xs)) {
		return
	}
	noInit := 0
	if c.NoInit {
		noInit = 1
	}
	w.Distinct(mon.NewHasher().S(c.Kind).F(min).F(max).I(c.NBins).I(c.B).I(c.M).Fs(xs).Fs(qs).I(gridAt).I(batch).I(noInit).Sum())
	if w.WantSample() && len(xs) > 3 {
		w.Sample(map[string]any{"hist": desc, "adds": len(xs), "under": cur[0], "over": cur[n+1], "bins": n, "queries": len(qs), "grid_after_adds": gridAt, "counts_every": batch, "fresh_counts_read": !c.NoInit})
	}
}

func c14Win(hr *ref.HistRef, exact bool) string {
	if exact {
		return "zero: dyadic shape, exact arithmetic"
	}
	if hr.Log {
		return fmt.Sprintf("32*2^-52*max(1,ln edge) relative: %.3g at the first, %.3g at the last edge", ref.LogWindow(hr.B, hr.M, 0), ref.LogWindow(hr.B, hr.M, hr.N))
	}
	return fmt.Sprintf("%.3g", hr.Win)
}

// c14JudgeGrid: BinToValue against the reference edges, strictly increasing
// on a grid of eighths, linear / geometric interpolation inside a bin.
func c14JudgeGrid(w *mon.W, h stats.Histogram, hr *ref.HistRef, desc, op string, gc c14Case) bool {
	n := hr.N
	b2v := func(t float64) (v float64, ok bool) {
		w.Eval(op + ".BinToValue")
		if p, pv := mon.Call(func() { v = h.BinToValue(t) }); p {
			w.Violate("panic-bintovalue", fmt.Sprintf("%s.BinToValue(%v) panicked: %v", desc, t, pv), gc)
			return 0, false
		}
		return v, true
	}
	edges := make([]float64, n+1)
	for i := 0; i <= n; i++ {
		v, ok := b2v(float64(i))
		if !ok {
			return false
		}
		edges[i] = v
		want := hr.Edge(i)
		if !w.Err(op+".BinToValue(edge)", math.Abs(v-want), hr.Tol(want)) {
			w.Violate("edge", fmt.Sprintf("%s.BinToValue(%d)=%.17g, reference edge %.17g", desc, i, v, want), gc)
			return false
		}
	}
	prev := math.Inf(-1)
	for j := 0; j <= 8*n; j++ {
		t := float64(j) / 8
		v, ok := b2v(t)
		if !ok {
			return false
		}
		if !(v > prev) {
			w.Violate("bintovalue-increasing", fmt.Sprintf("%s: BinToValue(%v)=%.17g is not above BinToValue(%v)=%.17g", desc, t, v, float64(j-1)/8, prev), gc)
			return false
		}
		prev = v
		// interpolation law on the library's own edge values
		i := j / 8
		f := t - float64(i)
		if f == 0 {
			continue
		}
		var want float64
		if hr.Log {
			want = math.Pow(edges[i], 1-f) * math.Pow(edges[i+1], f)
		} else {
			want = (1-f)*edges[i] + f*edges[i+1]
		}
		if !w.Err(op+".BinToValue(interpolation-law)", math.Abs(v-want), 2*hr.Tol(want)) {
			w.Violate("interpolation", fmt.Sprintf("%s: BinToValue(%v)=%.17g, interpolating BinToValue(%d)=%.17g and BinToValue(%d)=%.17g gives %.17g", desc, t, v, i, edges[i], i+1, edges[i+1], want), gc)
			return false
		}
	}
	// independent reference at arbitrary positions (position derived from the
	// shape, not from the per-case generator, so that a replay sees the same)
	g := mon.NewRand(mon.NewHasher().S(desc).Sum())
	for k := 0; k < 12; k++ {
		t := g.Uniform(0, float64(n))
		v, ok := b2v(t)
		if !ok {
			return false
		}
		want := hr.Value(t)
		if !w.Err(op+".BinToValue(reference)", math.Abs(v-want), hr.Tol(want)) {
			w.Violate("bintovalue", fmt.Sprintf("%s.BinToValue(%v)=%.17g, reference %.17g", desc, t, v, want), gc)
			return false
		}
	}
	return true
}

// ---------------------------------------------------------------------------
// generators

func c14Len(rng *mon.Rand) int {
	switch rng.Intn(10) {
	case 0:
		return rng.Intn(4)
	case 1:
		return 500
	case 2, 3:
		return rng.Range(1, 20)
	}
	return rng.Range(20, 500)
}

func c14Qs(rng *mon.Rand, total int) []float64 {
	qs := []float64{0, 1, 0.25, 0.75, 0.5, 1e-9, 1 - 1e-9}
	if total > 0 {
		for k := 0; k < 4; k++ {
			qs = append(qs, float64(rng.Intn(total+1))/float64(total))
		}
		for k := 0; k < 2; k++ {
			qs = append(qs, (float64(rng.Intn(total))+0.5)/float64(total))
		}
	}
	for k := 0; k < 5; k++ {
		qs = append(qs, rng.Float64())
	}
	return qs
}

func c14Pow10(rng *mon.Rand, lo, hi float64) float64 { return math.Pow(10, rng.Uniform(lo, hi)) }

func c14LinShape(rng *mon.Rand) (min, max float64, n int) {
	n = rng.Range(1, 50)
	switch rng.Intn(8) {
	case 0:
		n = 1
	case 1:
		n = 50
	case 2:
		n = 2
	}
	if rng.Intn(12) == 0 {
		// the top of the float64 range: bin*(max-min), (x-min)*nbins and the
		// like overflow here, max-min itself does not
		a := func() float64 { return math.Min(c14Pow10(rng, 306.6, 307.95), 8e307) }
		switch rng.Intn(5) {
		case 0:
			min, max = -a(), a()
		case 1:
			min, max = -8e307, 8e307
		case 2:
			min, max = float64(rng.Range(-5, 5)), 2*a()
		case 3:
			min, max = -2*a(), float64(rng.Range(-5, 5))
		default:
			min = rng.Sign() * c14Pow10(rng, 300, 307.5)
			max = min + a()
		}
		return
	}
	e := c14Pow10(rng, -3, 6)
	if rng.Intn(5) == 0 {
		e = c14Pow10(rng, -290, 290)
	}
	switch rng.Intn(6) {
	case 0:
		min, max = -e*rng.Uniform(0.1, 1), e*rng.Uniform(0.1, 1)
	case 1:
		min, max = 0, e*rng.Uniform(0.1, 1)
	case 2:
		min = e * rng.Uniform(0.1, 1)
		max = min + e*rng.Uniform(0.1, 10)
	case 3:
		max = -e * rng.Uniform(0.1, 1)
		min = max - e*rng.Uniform(0.1, 10)
	case 4:
		min = e * rng.Sign()
		max = min + math.Abs(min)*c14Pow10(rng, -6, 0)
	default:
		min = float64(rng.Range(-20, 20))
		max = min + float64(n)*rng.Pick(1, 2, 3, 5, 10, 0.1, 0.25, 7)
	}
	return
}

func c14LinValues(rng *mon.Rand, min, max float64, n, count int) []float64 {
	r := max - min
	width := r / float64(n)
	xs := make([]float64, 0, count)
	sgn := func() float64 { return rng.Sign() }
	for len(xs) < count {
		var x float64
		switch rng.Intn(15) {
		case 14: // a size that does not depend on the range
			x = c14Huge(rng, width)
		case 13: // far outside: the bin index exceeds every integer type
			if rng.Bool() {
				x = max + r*c14Pow10(rng, 12, 60)
			} else {
				x = min - r*c14Pow10(rng, 12, 60)
			}
		case 0, 1, 2:
			x = rng.Uniform(min, max)
		case 3:
			if rng.Bool() {
				x = min - width*rng.Float64()
			} else {
				x = min - width*c14Pow10(rng, -9, 0)
			}
		case 4:
			e := min + float64(rng.Intn(n+1))*width
			x = e + sgn()*r*c14Pow10(rng, -16, -3)
		case 5:
			x = min + float64(rng.Intn(n+1))*width
			switch rng.Intn(3) {
			case 0:
				x = math.Nextafter(x, math.Inf(1))
			case 1:
				x = math.Nextafter(x, math.Inf(-1))
			}
		case 6:
			x = max + width*rng.Float64()
		case 7:
			x = min - r*c14Pow10(rng, 0, 12)
		case 8:
			x = max + r*c14Pow10(rng, 0, 12)
		case 9:
			x = rng.Pick(min, max)
		case 10:
			x = rng.Uniform(min-r, max+r)
		case 11:
			x = min - r*c14Pow10(rng, -16, -3)
		default:
			x = max + sgn()*r*c14Pow10(rng, -16, -3)
		}
		if math.IsInf(x, 0) || math.IsNaN(x) {
			continue
		}
		xs = append(xs, x)
	}
	return xs
}

// c14Huge draws a value whose size does not depend on the histogram: up to
// +-MaxFloat64, in a share of the draws just large enough for (x-min)/width
// to exceed float64. Its reference slot is simply under or over.
func c14Huge(rng *mon.Rand, width float64) float64 {
	a := 0.0
	switch rng.Intn(5) {
	case 0:
		a = math.MaxFloat64
	case 1:
		a = c14Pow10(rng, 306, 308.25)
	case 2, 3:
		lo := math.Max(100, math.Log10(width)+308.3)
		if lo < 308.2 {
			a = c14Pow10(rng, lo, math.Min(lo+3, 308.25))
		} else {
			a = c14Pow10(rng, 100, 306)
		}
	default:
		a = c14Pow10(rng, 100, 306)
	}
	if !(a < math.MaxFloat64) {
		a = math.MaxFloat64
	}
	return rng.Sign() * a
}

func c14DyadicShape(rng *mon.Rand) (min, max float64, n int) {
	n = rng.PickI(1, 2, 4, 8, 16, 32)
	w := math.Ldexp(1, rng.Range(-30, 30))
	min = float64(rng.Range(-100, 100)) * w
	max = min + float64(n)*w
	return
}

func c14DyadicValues(rng *mon.Rand, min, max float64, n, count int) []float64 {
	w := (max - min) / float64(n)
	r := max - min
	xs := make([]float64, 0, count)
	for len(xs) < count {
		var x float64
		switch rng.Intn(11) {
		case 10:
			x = c14Huge(rng, w)
		case 0, 1:
			x = min + float64(rng.Range(-3, n+3))*w
		case 2:
			x = min + float64(rng.Range(-1, n+1))*w
			if rng.Bool() {
				x = math.Nextafter(x, math.Inf(1))
			} else {
				x = math.Nextafter(x, math.Inf(-1))
			}
		case 3:
			x = min + (float64(rng.Range(-2, n+1))+0.5)*w
		case 4:
			x = min + w*float64(rng.Range(-64, (n+4)*16))/16
		case 5:
			x = min
		case 6:
			x = max
		case 7:
			x = min - w*rng.Float64()
		case 8:
			x = rng.Uniform(min-r, max+r)
		default:
			if rng.Bool() {
				x = min - r*c14Pow10(rng, 0, 9)
			} else {
				x = max + r*c14Pow10(rng, 0, 9)
			}
		}
		xs = append(xs, x)
	}
	return xs
}

func c14LogShape(rng *mon.Rand) (b, m int, max float64, n int) {
	b = rng.Range(2, 10)
	m = rng.Range(1, 4)
	// 1..50 bins for every base and m: the top edge b^(50/m) reaches 1e50
	const nmax = 50
	n = rng.Range(1, nmax)
	switch rng.Intn(6) {
	case 0:
		n = 1
	case 1:
		n = nmax
	}
	if rng.Intn(6) == 0 {
		// exactly on the nominal top edge: ceil may go either way
		max = math.Pow(float64(b), float64(n)/float64(m))
	} else {
		max = math.Pow(float64(b), (float64(n-1)+rng.Uniform(0.02, 0.98))/float64(m))
	}
	return
}

func c14LogValues(rng *mon.Rand, b, m, n, count int) []float64 {
	fb, fm := float64(b), float64(m)
	top := math.Pow(fb, float64(n)/fm)
	ratio := math.Pow(fb, 1/fm)
	xs := make([]float64, 0, count)
	for len(xs) < count {
		var x float64
		if rng.Intn(60) == 0 {
			// not positive: below the first bin like any other value < 1
			switch rng.Intn(5) {
			case 0:
				x = 0
			case 1:
				x = math.Copysign(0, -1)
			case 2:
				x = -c14Pow10(rng, -3, 3)
			case 3:
				x = -rng.Pick(math.MaxFloat64, math.SmallestNonzeroFloat64, c14Pow10(rng, 300, 308.25), c14Pow10(rng, -323, -300))
			default:
				x = -c14Pow10(rng, -300, 300)
			}
			xs = append(xs, x)
			continue
		}
		switch rng.Intn(14) {
		case 13: // a size that does not depend on the shape, up to the ends of float64
			x = rng.Pick(math.MaxFloat64, c14Pow10(rng, 300, 308.25), c14Pow10(rng, 100, 306), c14Pow10(rng, 100, 306),
				math.SmallestNonzeroFloat64, c14Pow10(rng, -323, -300), c14Pow10(rng, -306, -100))
		case 0, 1, 2:
			x = math.Exp(rng.Uniform(0, math.Log(top)))
		case 3:
			switch rng.Intn(3) {
			case 0:
				x = math.Pow(ratio, -rng.Float64())
			case 1:
				x = 1 - (1-1/ratio)*c14Pow10(rng, -9, 0)
			default:
				x = 1 - c14Pow10(rng, -15, -1)*(1-1/ratio)
			}
		case 4:
			i := rng.Intn(n + 1)
			e := math.Pow(fb, float64(i)/fm)
			if rng.Intn(3) == 0 {
				// just outside the edge window (1.25 to 40 half-widths off)
				x = e * (1 + rng.Sign()*ref.LogWindow(b, m, i)*c14Pow10(rng, 0.1, 1.6))
			} else {
				x = e * (1 + rng.Sign()*c14Pow10(rng, -16, -3))
			}
		case 5:
			x = math.Pow(fb, float64(rng.Intn(n+1))/fm)
			switch rng.Intn(3) {
			case 0:
				x = math.Nextafter(x, math.Inf(1))
			case 1:
				x = math.Nextafter(x, 0)
			}
		case 6:
			x = top * math.Pow(ratio, rng.Float64())
		case 7:
			x = c14Pow10(rng, -12, 0) / ratio
			if rng.Intn(8) == 0 {
				x = c14Pow10(rng, -300, -12)
			}
		case 8:
			x = top * c14Pow10(rng, 0, 12)
			if rng.Intn(8) == 0 {
				x = c14Pow10(rng, 30, 300)
			}
		case 9:
			x = rng.Pick(1, top)
		case 10:
			x = math.Exp(rng.Uniform(-math.Log(ratio)-3, math.Log(top)+3))
		case 11:
			x = 1 - c14Pow10(rng, -16, -3)
		default:
			x = top * (1 + rng.Sign()*c14Pow10(rng, -16, -3))
		}
		if !(x > 0) || math.IsInf(x, 0) {
			continue
		}
		xs = append(xs, x)
	}
	return xs
}

// c14Specials overlays a generated stream with the values a histogram can
// mistake for its own untouched state: zeros (lin only; LogHist streams have
// them already), immediate repeats of the previous value, and, in a share of
// the cases, a first value (or a leading run) of 0 / -0 or a first value of
// +-MaxFloat64. The length of the stream is unchanged.
func c14Specials(rng *mon.Rand, xs []float64, lin bool) {
	if len(xs) == 0 {
		return
	}
	zero := func() float64 {
		if rng.Bool() {
			return math.Copysign(0, -1)
		}
		return 0
	}
	for i := range xs {
		switch rng.Intn(40) {
		case 0:
			if lin {
				xs[i] = zero()
			}
		case 1, 2:
			if i > 0 {
				xs[i] = xs[i-1]
			}
		}
	}
	switch rng.Intn(8) {
	case 0, 1:
		run := 1
		if rng.Intn(3) == 0 {
			run = rng.Range(2, 6)
		}
		for i := 0; i < run && i < len(xs); i++ {
			xs[i] = zero()
		}
	case 2:
		xs[0] = rng.Sign() * math.MaxFloat64
	}
}

// c14History draws the phase of the harness's BinToValue checks and how
// often Counts() is read, for a stream of L values.
func c14History(rng *mon.Rand, c *c14Case, L int) {
	c.Grid, c.GridAt, c.Batch = true, 0, 1
	c.NoInit = rng.Intn(3) == 0
	switch g := rng.Intn(20); {
	case g < 7: // on the fresh histogram
	case g < 11:
		if L >= 2 {
			c.GridAt = rng.Range(1, L-1)
		}
	case g < 14:
		c.GridAt = L
	case g < 16:
		c.GridAt = L + 1
	default:
		c.Grid = false
	}
	switch rng.Intn(10) {
	case 0, 1:
		c.Batch = rng.Range(2, 40)
	case 2:
		c.Batch = 500 // the whole stream (up to the next checkpoint)
	}
}

// ---------------------------------------------------------------------------
// wide histograms and long streams: sizes beyond the 1..50 bins / 500 values
// of the base classes

// c14BinEndQs: arguments j/total whose rank j is that of the last sample of an
// occupied bin, and of the first sample of the next one (the ranks at which a
// rank walk, in whatever direction or block size, has to stop or go on), for
// up to 10 occupied bins: the first, the last, and bins drawn over the whole
// width.
func c14BinEndQs(rng *mon.Rand, under uint64, counts []uint64, total uint64) []float64 {
	if total == 0 {
		return nil
	}
	var occ []int
	for i, c := range counts {
		if c > 0 {
			occ = append(occ, i)
		}
	}
	if len(occ) == 0 {
		return nil
	}
	pick := map[int]bool{occ[0]: true, occ[len(occ)-1]: true}
	for k := 0; k < 8; k++ {
		pick[occ[rng.Intn(len(occ))]] = true
	}
	var out []float64
	cum := under
	for i, c := range counts {
		cum += c
		if c > 0 && pick[i] {
			for _, j := range []uint64{cum, cum + 1} {
				if j <= total {
					out = append(out, float64(j)/float64(total))
				}
			}
		}
	}
	return out
}

// c14WideBins draws a bin count in 51..hi: log-uniform, at or next to a round
// number, or a multiple of a block size (plus or minus a little).
func c14WideBins(rng *mon.Rand, hi int) int {
	n := 0
	switch rng.Intn(3) {
	case 0:
		n = int(rng.LogUniform(51, float64(hi)+1))
	case 1:
		n = rng.PickI(64, 100, 128, 200, 256, 500, 512, 1000, 1024, 2000, 2048, 4096, 5000, 8192, 10000, 16384, 20000, 32768, 50000, 65536) + rng.PickI(-1, 0, 0, 1, 2)
	default:
		n = rng.PickI(16, 32, 64, 128, 256, 1000)*rng.Range(2, 20) + rng.PickI(-1, 0, 1, rng.Range(2, 15))
	}
	if n > hi {
		n = hi - rng.Intn(3)
	}
	if n < 51 {
		n = 51
	}
	return n
}

// c14WideLen draws a stream length in 1..hi (from one value in thousands of
// bins to many per bin), in one draw of four at or one past a round number.
func c14WideLen(rng *mon.Rand, lo, hi int) int {
	L := int(rng.LogUniform(float64(lo), float64(hi)+1))
	if rng.Intn(4) == 0 {
		L = rng.PickI(1000, 1024, 4096, 5000, 10000, 16384, 32768, 50000, 65536, 100000) + rng.PickI(0, 1)
	}
	if L > hi {
		L = hi
	}
	if L < lo {
		L = lo
	}
	return L
}

// c14WideCounts fills the count vector of a wide harness histogram: dense,
// sparse (mostly one sample per occupied bin), runs of occupied and of empty
// bins, a few occupied bins, empty ends, or a few very large counts.
func c14WideCounts(rng *mon.Rand, nb int) []uint64 {
	cs := make([]uint64, nb)
	small := func() uint64 {
		if rng.Intn(5) > 0 {
			return 1
		}
		return uint64(rng.Range(2, 6))
	}
	sparse := func(lo, hi int, p float64) {
		for i := lo; i < hi; i++ {
			if rng.Float64() < p {
				cs[i] = small()
			}
		}
	}
	switch rng.Intn(8) {
	case 0:
		cmax := rng.PickI(1, 3, 20, 200)
		for i := range cs {
			cs[i] = uint64(rng.Range(1, cmax))
		}
	case 1, 2, 3:
		sparse(0, nb, rng.LogUniform(1/float64(nb), 0.5))
	case 4:
		on := rng.Bool()
		p := rng.Pick(1, 1, 0.5, 0.1)
		for i := 0; i < nb; on = !on {
			run := int(rng.LogUniform(1, float64(nb)/2+2))
			if on {
				hi := i + run
				if hi > nb {
					hi = nb
				}
				sparse(i, hi, p)
			}
			i += run
		}
	case 5:
		for k := rng.Range(1, 3); k > 0; k-- {
			cs[rng.Intn(nb)] += uint64(rng.PickI(1, 2, 10, 1000))
		}
	case 6:
		lo := int(rng.LogUniform(1, float64(nb))) - 1
		hi := nb - int(rng.LogUniform(1, float64(nb)))
		sparse(lo, hi, rng.Pick(1, 0.5, 0.05))
	default:
		sparse(0, nb, rng.LogUniform(1/float64(nb), 0.5))
		for k := rng.Range(1, 8); k > 0; k-- {
			cs[rng.Intn(nb)] += uint64(rng.LogUniform(1000, 6e9))
		}
	}
	switch rng.Intn(6) {
	case 0:
		cs[nb-1] = 0
	case 1:
		cs[nb-1] = small()
	case 2:
		cs[0] = small()
	}
	return cs
}

// c14Spread overlays a generated stream: 7 values of 8 are moved inside the
// binned range, over the whole of it or over a part (so that stretches of
// bins stay empty); pos maps a position in [0,1) to a value.
func c14Spread(rng *mon.Rand, xs []float64, pos func(u float64) float64) {
	lo, hi := 0.0, 1.0
	switch rng.Intn(3) {
	case 0:
		return
	case 1:
		a, b := rng.Float64(), rng.Float64()
		lo, hi = math.Min(a, b), math.Max(a, b)
	}
	for i := range xs {
		if rng.Intn(8) > 0 {
			xs[i] = pos(rng.Uniform(lo, hi))
		}
	}
}

// c14WideHistory: like c14History; Counts() is read often enough to see
// every Add of a short stream, and seldom enough to bound the copying for a
// long stream into many bins; up to 3 quantile checkpoints.
func c14WideHistory(rng *mon.Rand, c *c14Case, n, L int) {
	c14History(rng, c, L)
	if c.Batch == 500 {
		c.Batch = L + 1
	}
	if rng.Intn(3) == 0 {
		c.Batch = rng.PickI(64, 1000, 4096)
	}
	if min := n*L/10000000 + 1; c.Batch < min {
		c.Batch = min
	}
	c.QEvery = 0
	if rng.Intn(3) == 0 && L >= 4 {
		c.QEvery = L/rng.Range(2, 4) + 1
	}
}

func c14Run(r *mon.Run) {
	r.Rule("LinearHist: 1..50 bins, min<max of either sign, magnitudes 1e-290..1e290 and (1 shape in 12) up to +-8e307 with ranges up to 1.6e308, range/scale >= 1e-6, plus dyadic shapes (power-of-two bin count and width) judged with a zero window; LogHist: bases 2..10, m 1..4, 1..50 bins for every base and m (top edge up to 1e50); streams of 0..500 values from 1e60 ranges below to 1e60 ranges above, plus values of a size independent of the shape (+-1e100..+-MaxFloat64, for LinearHist aimed at a bin index beyond float64; LogHist also down to 5e-324), dense within one bin width below the first edge and around every edge (LogHist: also 1.25..40 window half-widths off an edge), LogHist streams with about 1 in 60 values zero, -0 or negative (reference: under count); LinearHist streams with about 1 in 40 values 0 or -0 whatever the range, every stream with about 1 value in 20 an immediate repeat of the previous one, in 1 case of 4 the first value (1 in 3 of those: the first 2..6 values) is 0 / -0 and in 1 case of 8 it is +-MaxFloat64, so that the first Add on a fresh histogram is a value an uninitialised remembered sample would match; in 1 case of 3 Counts() of the fresh histogram is not read (start state all zero by definition; LogHist bin count from a second instance) so that the first Adds run on an untouched histogram; after every Add (in 3 of 10 cases: after every batch of 2..40 Adds or of the whole stream) a private copy of Counts() must differ from the previous one in exactly one counter by +1, and that counter must be the reference slot (384-bit edges; window 1e-12*max(|min|,|max|) linear, 32*2^-52*max(1,ln edge) relative logarithmic: either side accepted; per batch: no counter decreases and the increments match the multiset of reference slots); BinToValue: edges, eighths grid strictly increasing, interpolation law, 12 reference points per shape, run on the fresh histogram, mid-stream, after the stream, after the final queries or never (the harness calls BinToValue for nothing else before that point); HistogramQuantile on ~20 arguments per checkpoint incl. 0, 1 and rank boundaries j/total: each call judged against both rank readings (NaN iff a reading is outside the bins, value inside the rank interval of a reading), all answers on one histogram state explained by one and the same reading (else quantile-mixed-readings), non-decreasing, counters untouched; HistogramIQR = Q(.75)-Q(.25). Harness-defined histograms: every count vector (under, <=3 bins, over each 0..3; thorough 0..4 with <=4 bins) x q=k/12 and k/7, three BinToValue shapes, call budget 4096. Wide histograms and long streams (sizes beyond the base classes, through the same judges): harness-defined histograms of 51..70000 bins (thorough 300000; log-uniform, at or next to powers of two / 1000 / 5000 / 10000 ..., multiples of block sizes 16..1000 plus or minus a little; call budget 64 per bin) filled densely, sparsely (mostly one sample per occupied bin), in runs of occupied and empty bins, with a few occupied bins, with empty ends or with a few counts up to 6e9 (totals past 2^16 and 2^32), and 1..50 bins with counts up to 2e10; LinearHist of 51..20000 bins (thorough 70000) and LogHist of 51 bins up to the widest shape whose top edge is a float64 (4095 bins for base 2, m 4), streams of 1..30000 values (thorough 200000) log-uniform or at / one past a round number, 7 of 8 values spread over the whole binned range or a part of it, and 1..50-bin shapes with streams of 501..90000 values; Counts() read per Add or per batch (at least every 1e7/bins Adds), up to 3 quantile checkpoints; on every wide state also the arguments j/total for the rank of the last sample of up to 10 occupied bins and the rank after it. Non-trivial: hits a class; distinct by hash of (shape, stream, queries).")
	r.Assume("ambiguity: a value within 1e-12*max(|min|,|max|) (linear) or 32*2^-52*max(1,ln edge) relative (log: the error bound of any float64 evaluation of m*log_b(x) - ln, log2, log10 based - or of a comparison with float64 edges, with a factor >= 3.5 to spare; see ref.LogWindow) of a reference edge may be counted on either side; zero window only for dyadic linear shapes with exact x-min, where every float64 formula for the bin index is exact",
		"rank: g=floor(q*total) in exact arithmetic; also accepted: the floor of the correctly rounded float64 product, and k when q is exactly float64(k)/float64(total); the ranked sample is the one of 0-based index g throughout or g-1 throughout (per histogram state; where a reading names no sample at all - 0-based at q=1, 1-based for q*total<1 - NaN and clamping to the last/first sample both count as that reading); a numeric answer must lie in [BinToValue(bin+k/c), BinToValue(bin+(k+1)/c)] for the k-th of c samples of its bin under one of the readings",
		"domain: all finite values up to +-MaxFloat64; linear shapes with |min|,|max| <= 1.6e308 and a range width max-min between 1e-290 and 1.6e308 (finite in float64) that is at least 1e-6 of max(|min|,|max|); LogHist values finite, of either sign and zero (non-positive values are below the first bin), positive ones from 5e-324 to MaxFloat64, LogHist max > 1; the bin count of a LogHist is taken from Counts() (the statement does not fix it)",
		"q in [0,1] only")
	r.Gate("lin:above-by-more-than-1e20-ranges", "lin:below-first-edge-within-width", "log:below-first-edge-within-width", "under>0-quantile-in-bins", "under>0-quantile-in-bins-only",
		"q=0", "q=1", "q=1-no-overflow", "over>0", "under>0", "exact-edge-dyadic", "top-edge-exact", "bottom-edge-exact",
		"fake:under>0", "fake:over>0", "fake:empty-bin", "lin:above-last-edge", "log:above-last-edge", "empty-stream", "stream-of-500",
		"IQR-number", "IQR-NaN", "one-bin", "fifty-bins",
		"log:top-edge-beyond-2^63", "log:top-edge-beyond-1e30", "log:binned-value-beyond-2^63", "log:zero-sample", "log:negative-sample",
		"grid:on-fresh-histogram", "grid:mid-stream", "grid:after-stream", "grid:after-final-queries", "grid:never",
		"add-before-any-harness-bintovalue", "counts-read-per-batch",
		"add-before-any-counts-read", "add-to-untouched-histogram",
		"lin:bin-index-overflows-float64", "lin:sample-beyond-1e306", "log:sample-beyond-1e306", "log:sample-below-1e-300",
		"lin:range-beyond-3.6e306", "log:sharp-within-1e-12-of-edge", "log:sharp-within-1e-12-below-edge",
		"lin:zero-sample-outside-first-bin", "lin:first-sample-zero", "lin:first-sample-zero-outside-first-bin", "lin:zero-after-only-zeros-outside-first-bin",
		"log:first-sample-zero", "log:first-sample-zero-outside-first-bin", "log:zero-after-only-zeros-outside-first-bin",
		"lin:first-sample-extreme", "log:first-sample-extreme", "lin:sample-repeats-previous", "log:sample-repeats-previous",
		"wide:fake-bins>64", "wide:fake-bins>=1000", "wide:fake-bins>=4096", "wide:fake-bins>=10000", "wide:fake-total>=2^16", "wide:fake-total>=2^32",
		"wide:fake-dense-every-bin-occupied", "wide:fake-sparse-under-quarter-occupied", "wide:fake-8-or-more-gaps-above-occupied-bins",
		"wide:lin-bins>64", "wide:lin-bins>=1000", "wide:lin-bins>=4096", "wide:log-bins>64", "wide:log-bins>=1000",
		"wide:lin-sparse-under-quarter-occupied", "wide:log-sparse-under-quarter-occupied", "wide:lin-dense-every-bin-occupied", "wide:log-dense-every-bin-occupied",
		"wide:ranked-sample-beyond-bin-64", "wide:ranked-sample-beyond-bin-1024", "wide:ranked-sample-beyond-bin-4096",
		"wide:ranked-sample-last-of-bin-empty-bin-above", "wide:ranked-sample-first-of-bin-empty-bin-below", "wide:ranked-sample-in-last-bin",
		"wide:q=1-top-bin-empty", "wide:q>1/2-in-bins", "wide:stream>=10000")
	if err := ref.HistSelfTest(); err != nil {
		r.Inconclusive("reference self-test failed: " + err.Error())
		return
	}

	// --- harness-defined histograms: all small count vectors ---------------
	maxC, maxB := uint64(r.Pick(3, 4)), r.Pick(3, 4)
	var fakes []c14Case
	var gen func(counts []uint64, nb int)
	var enumQs []mon.F
	for k := 0; k <= 12; k++ {
		enumQs = append(enumQs, mon.F(float64(k)/12))
	}
	for k := 1; k < 7; k++ {
		enumQs = append(enumQs, mon.F(float64(k)/7))
	}
	gen = func(counts []uint64, nb int) {
		if len(counts) == nb {
			for u := uint64(0); u <= maxC; u++ {
				for o := uint64(0); o <= maxC; o++ {
					fakes = append(fakes, c14Case{Kind: "fake", Under: u, Over: o, Counts: append([]uint64(nil), counts...),
						Fn: len(fakes) % 3, Qs: enumQs, IQR: true})
				}
			}
			return
		}
		for v := uint64(0); v <= maxC; v++ {
			gen(append(counts, v), nb)
		}
	}
	for nb := 0; nb <= maxB; nb++ {
		gen(nil, nb)
	}
	r.Exhaustive(fmt.Sprintf("HistogramQuantile/IQR on every count vector with under, over and each of 0..%d bins in 0..%d, q in {k/12} and {k/7}", maxB, maxC))
	r.Parallel("fake-enum", len(fakes), func(w *mon.W, i int) {
		c14JudgeFake(w, fakes[i])
	})

	r.Parallel("fake-random", r.Pick(3000, 40000), func(w *mon.W, i int) {
		rng := w.Rng
		nb := rng.Range(0, 50)
		if rng.Intn(3) == 0 {
			nb = rng.Range(1, 6)
		}
		c := c14Case{Kind: "fake", Fn: rng.Intn(3), QDerive: true, IQR: true}
		budget := rng.Range(0, 500)
		if rng.Intn(6) == 0 {
			budget = rng.Range(0, 12)
		}
		take := func(max int) uint64 {
			if budget <= 0 || max <= 0 {
				return 0
			}
			v := rng.Intn(max + 1)
			if v > budget {
				v = budget
			}
			budget -= v
			return uint64(v)
		}
		if rng.Intn(3) > 0 {
			c.Under = take(rng.PickI(1, 5, 100))
		}
		if rng.Intn(3) > 0 {
			c.Over = take(rng.PickI(1, 5, 100))
		}
		c.Counts = make([]uint64, nb)
		for _, j := range rng.Perm(nb) {
			if rng.Intn(3) == 0 {
				continue
			}
			c.Counts[j] = take(rng.PickI(1, 3, 20, 200))
		}
		total := int(c.Under + c.Over)
		for _, v := range c.Counts {
			total += int(v)
		}
		c.Qs = mon.Fs(c14Qs(rng, total))
		c14JudgeFake(w, c)
	})

	// --- library histograms ------------------------------------------------
	qevery := func(rng *mon.Rand, n int) int {
		if rng.Intn(4) == 0 && n > 0 {
			return rng.Range(1, 60)
		}
		return 0
	}
	r.Parallel("lin-random", r.Pick(1500, 10000), func(w *mon.W, i int) {
		rng := w.Rng
		min, max, n := c14LinShape(rng)
		if !(min < max) || (max-min)/math.Max(math.Abs(min), math.Abs(max)) < 9e-7 {
			return
		}
		L := c14Len(rng)
		c := c14Case{Kind: "lin", Min: mon.F(min), Max: mon.F(max), NBins: n, Grid: true, QDerive: true, IQR: true}
		xs := c14LinValues(rng, min, max, n, L)
		c.Qs = mon.Fs(c14Qs(rng, L))
		c.QEvery = qevery(rng, L)
		c14History(rng, &c, L)
		c14Specials(rng, xs, true)
		c.Xs = mon.Fs(xs)
		c14JudgeHist(w, c)
	})
	r.Parallel("lin-dyadic", r.Pick(800, 5000), func(w *mon.W, i int) {
		rng := w.Rng
		min, max, n := c14DyadicShape(rng)
		L := c14Len(rng)
		c := c14Case{Kind: "lin", Min: mon.F(min), Max: mon.F(max), NBins: n, Grid: true, QDerive: true, IQR: true}
		xs := c14DyadicValues(rng, min, max, n, L)
		c.Qs = mon.Fs(c14Qs(rng, L))
		c.QEvery = qevery(rng, L)
		c14History(rng, &c, L)
		c14Specials(rng, xs, true)
		c.Xs = mon.Fs(xs)
		c14JudgeHist(w, c)
	})
	// --- wide histograms and long streams ----------------------------------
	fakeHi, binsHi, lenHi := r.Pick(70000, 300000), r.Pick(20000, 70000), r.Pick(30000, 200000)
	r.Parallel("fake-wide", r.Pick(500, 6000), func(w *mon.W, i int) {
		rng := w.Rng
		nb := c14WideBins(rng, fakeHi)
		heavy := rng.Intn(8) == 0
		if heavy {
			nb = rng.Range(1, 50) // few bins, very many samples
		}
		c := c14Case{Kind: "fake", Fn: rng.PickI(0, 2), QDerive: true, IQR: true}
		if nb <= 3000 {
			c.Fn = rng.Intn(3) // the geometric shape stays finite
		}
		c.Counts = c14WideCounts(rng, nb)
		if heavy {
			for k := rng.Range(1, 4); k > 0; k-- {
				c.Counts[rng.Intn(nb)] += uint64(rng.LogUniform(1e4, 2e10))
			}
		}
		binned := uint64(0)
		for _, v := range c.Counts {
			binned += v
		}
		side := func() uint64 {
			switch rng.Intn(4) {
			case 0:
				return uint64(rng.Range(1, 5))
			case 1:
				return uint64(rng.LogUniform(1, float64(binned)+2))
			}
			return 0
		}
		c.Under, c.Over = side(), side()
		total := c.Under + c.Over + binned
		qs := c14Qs(rng, int(total))
		qs = append(qs, c14BinEndQs(rng, c.Under, c.Counts, total)...)
		c.Qs = mon.Fs(qs)
		c14JudgeFake(w, c)
	})
	r.Parallel("lin-wide", r.Pick(120, 1200), func(w *mon.W, i int) {
		rng := w.Rng
		min, max, n := c14LinShape(rng)
		if !(min < max) || (max-min)/math.Max(math.Abs(min), math.Abs(max)) < 9e-7 {
			return
		}
		L := 0
		if rng.Intn(5) == 0 {
			L = c14WideLen(rng, 501, 3*lenHi) // 1..50 bins, a long stream
		} else {
			n = c14WideBins(rng, binsHi)
			L = c14WideLen(rng, 1, lenHi)
		}
		c := c14Case{Kind: "lin", Min: mon.F(min), Max: mon.F(max), NBins: n, Grid: true, QDerive: true, IQR: true}
		xs := c14LinValues(rng, min, max, n, L)
		c14Spread(rng, xs, func(u float64) float64 { return min + (max-min)*u })
		c.Qs = mon.Fs(c14Qs(rng, L))
		c14WideHistory(rng, &c, n, L)
		c14Specials(rng, xs, true)
		c.Xs = mon.Fs(xs)
		c14JudgeHist(w, c)
	})
	r.Parallel("log-wide", r.Pick(100, 1000), func(w *mon.W, i int) {
		rng := w.Rng
		b, m, max, n := c14LogShape(rng)
		L := 0
		if rng.Intn(5) == 0 {
			L = c14WideLen(rng, 501, 3*lenHi)
		} else {
			// up to the widest LogHist of this base and m whose top edge is a float64
			nmax := int(float64(m)*math.Log(1.7e308)/math.Log(float64(b))) - 1
			n = c14WideBins(rng, nmax)
			max = math.Pow(float64(b), (float64(n-1)+rng.Uniform(0.02, 0.98))/float64(m))
			L = c14WideLen(rng, 1, lenHi)
		}
		c := c14Case{Kind: "log", B: b, M: m, Max: mon.F(max), Grid: true, QDerive: true, IQR: true}
		xs := c14LogValues(rng, b, m, n, L)
		lt := float64(n) / float64(m) * math.Log(float64(b))
		c14Spread(rng, xs, func(u float64) float64 { return math.Exp(u * lt) })
		c.Qs = mon.Fs(c14Qs(rng, L))
		c14WideHistory(rng, &c, n, L)
		c14Specials(rng, xs, false)
		c.Xs = mon.Fs(xs)
		c14JudgeHist(w, c)
	})
	r.Parallel("log-random", r.Pick(1500, 10000), func(w *mon.W, i int) {
		rng := w.Rng
		b, m, max, n := c14LogShape(rng)
		L := c14Len(rng)
		c := c14Case{Kind: "log", B: b, M: m, Max: mon.F(max), Grid: true, QDerive: true, IQR: true}
		// values are laid out for the nominal n bins; the library may have n or n+1
		xs := c14LogValues(rng, b, m, n, L)
		c.Qs = mon.Fs(c14Qs(rng, L))
		c.QEvery = qevery(rng, L)
		c14History(rng, &c, L)
		c14Specials(rng, xs, false)
		c.Xs = mon.Fs(xs)
		c14JudgeHist(w, c)
	})
}
