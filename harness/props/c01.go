package props

import (
	"encoding/json"
	"fmt"
	"math"
	"sort"

	"github.com/aclements/go-moremath/stats"

	"verifmon/mon"
	"verifmon/ref"
)

// C01 — Mann-Whitney exact test: U is the pair count, P the exact
// permutation tail.

type c01Case struct {
	X1  []float64 `json:"x1"`
	X2  []float64 `json:"x2"`
	Alt int       `json:"alt"`
}

func init() {
	mon.Register(&mon.Prop{ID: "C01", Run: c01Run, Replay: func(w *mon.W, v *mon.ViolationRec) {
		var c c01Case
		if json.Unmarshal(v.Case, &c) == nil {
			c01Judge(w, c)
		}
	}})
}

var alts = []stats.LocationHypothesis{stats.LocationLess, stats.LocationDiffers, stats.LocationGreater}

// exactApplies says whether the statement's exact-method domain covers the
// pair, using the library's public limit variables as the statement does.
func exactApplies(n1, n2 int, ties bool) bool {
	if ties {
		return n1 <= stats.MannWhitneyTiesExactLimit && n2 <= stats.MannWhitneyTiesExactLimit
	}
	return n1 <= stats.MannWhitneyExactLimit && n2 <= stats.MannWhitneyExactLimit
}

// exactP returns the three reference p-values for 2U=twoU.
func exactP(tab *ref.UTable, twoU int) (less, differs, greater float64) {
	less = tab.CDF2(twoU)
	greater = tab.SF2(twoU)
	differs = math.Min(1, 2*math.Min(less, greater))
	return
}

// d3Signature: the value the recorded defect D3 produces for the two-sided
// exact test: min(1, 2*Pr[U' <= min(U1, N1N2-U1)]), or 1 when U1 == U2.
func d3Signature(tab *ref.UTable, twoU int) float64 {
	m := tab.Max2U()
	if 2*twoU == m {
		return 1
	}
	lo := twoU
	if m-twoU < lo {
		lo = m - twoU
	}
	return math.Min(1, 2*tab.CDF2(lo))
}

func c01Judge(w *mon.W, c c01Case) {
	x1, x2 := c.X1, c.X2
	n1, n2 := len(x1), len(x2)
	T, ties := pooledTies(x1, x2)
	if n1 == 0 || n2 == 0 || len(T) < 2 || !exactApplies(n1, n2, ties) {
		return
	}
	alt := stats.LocationHypothesis(c.Alt)
	twoU := twoUDef(x1, x2)
	tab := uCache.Get(T, n1)
	pl, pd, pg := exactP(tab, twoU)
	want := map[stats.LocationHypothesis]float64{stats.LocationLess: pl, stats.LocationDiffers: pd, stats.LocationGreater: pg}[alt]

	// classes (inputs and reference-side quantities only)
	w.HitIf(len(T) == 2, "K=2")
	w.HitIf(ties && twoU > 0 && tab.PMF2(twoU-1) > 0, "mass-at-U-half")
	w.HitIf(!isPalindrome(T), "non-palindromic-T")
	w.HitIf(2*twoU == tab.Max2U(), "U1==U2")
	w.HitIf(twoU == 0 || twoU == tab.Max2U(), "U-extreme")
	if ties {
		w.Note("tied")
	} else {
		w.Note("untied")
	}
	w.HitIf(!ties && (n1 == stats.MannWhitneyExactLimit || n2 == stats.MannWhitneyExactLimit), "n-at-untied-limit")
	w.HitIf(ties && (n1 == stats.MannWhitneyTiesExactLimit || n2 == stats.MannWhitneyTiesExactLimit), "n-at-tied-limit")
	w.Distinct(mon.NewHasher().Fs(x1).Fs(x2).I(c.Alt).Sum())

	var res *stats.MannWhitneyUTestResult
	var err error
	a1 := append([]float64(nil), x1...)
	a2 := append([]float64(nil), x2...)
	w.Eval("MannWhitneyUTest")
	if p, v := mon.Call(func() { res, err = stats.MannWhitneyUTest(a1, a2, alt) }); p {
		w.Violate("panic", fmt.Sprintf("MannWhitneyUTest panicked: %v", v), c)
		return
	}
	if err != nil || res == nil {
		w.Violate("error", fmt.Sprintf("unexpected error %v on exact-domain input n1=%d n2=%d T=%v", err, n1, n2, T), c)
		return
	}
	if res.U != float64(twoU)/2 {
		w.Violate("U", fmt.Sprintf("U=%v, pair count is %v (n1=%d n2=%d T=%v)", res.U, float64(twoU)/2, n1, n2, T), c)
	}
	if res.N1 != n1 || res.N2 != n2 || res.AltHypothesis != alt {
		w.Violate("fields", fmt.Sprintf("N1,N2,Alt=%d,%d,%v want %d,%d,%v", res.N1, res.N2, res.AltHypothesis, n1, n2, alt), c)
	}
	// P has no stated tolerance. Allowed: 1e-9 relative to the exact value
	// plus 1e-12 absolute — the rounding noise of a float64 probability
	// formed as 1-(sum of the other tail) from counts that carry ~1e-13
	// relative error (the unchanged library's tied upper tail is off by up to
	// 3e-14 that way). An absolute 1e-9 would leave every p-value below 1e-9
	// unjudged, and the exact test exists to report those.
	d := math.Abs(res.P - want)
	tolP := 1e-9*want + 1e-12
	w.HitIf(want > 0 && want < 1e-9, "P-exact<1e-9")
	w.HitIf(want > 4e-12 && want < 1e-9, "P-exact-in-(4e-12,1e-9)")
	oname := "P-exact"
	if want < 1e-9 {
		oname = "P-exact(tiny)"
	}
	if !w.Err(oname, d, tolP) {
		msg := fmt.Sprintf("alt=%v P=%.12g, exact conditional probability is %.12g (U=%v n1=%d n2=%d T=%v)", alt, res.P, want, float64(twoU)/2, n1, n2, T)
		if alt == stats.LocationDiffers && ties && math.Abs(res.P-d3Signature(tab, twoU)) <= 1e-12 {
			w.Known("D3", "P-two-sided-ties", msg, c)
		} else {
			w.Violate("P-"+alt.String(), msg, c)
		}
	}
	if w.WantSample() {
		w.Sample(map[string]any{"x1": x1, "x2": x2, "alt": alt.String(), "U": res.U, "P": res.P, "P_ref": want, "T": T})
	}
}

func c01Run(r *mon.Run) {
	r.Rule("exhaustive: every tie vector T (composition of N into >=2 parts) x every allocation of tied values to the two samples x 3 alternatives for N<=10 (thorough 13), values = ranks pushed through a random strictly increasing map, samples shuffled; random: (T,allocation) shapes up to the exact limits. A case is non-trivial if it hits any class (K=2, mass at U-1/2, non-palindromic T, U1==U2, extreme U, limit sizes...); distinct by hash of (x1,x2,alt).")
	r.Assume("reference distribution: subset enumeration (N<=14) / 128-bit generating-function DP, cross-checked at start-up for N<=9",
		"MannWhitneyExactLimit/MannWhitneyTiesExactLimit at their current values define the exact domain")
	r.Gate("K=2", "mass-at-U-half", "non-palindromic-T", "U1==U2", "U-extreme", "n-at-untied-limit", "n-at-tied-limit", "tied", "untied", "P-exact<1e-9", "P-exact-in-(4e-12,1e-9)", "far-tail", "same-sizes-and-U-under-different-tie-vectors")
	if err := ref.USelfTest(r.Pick(8, 9)); err != nil {
		r.Inconclusive("reference self-test failed: " + err.Error())
		return
	}
	maxN := r.Pick(10, 13)
	var comps [][]int
	for N := 2; N <= maxN; N++ {
		ref.Compositions(N, 2, func(T []int) { comps = append(comps, append([]int(nil), T...)) })
	}
	r.Exhaustive(fmt.Sprintf("all (tie vector, allocation, alternative) with n1+n2<=%d", maxN))
	r.Parallel("exhaustive", len(comps), func(w *mon.W, i int) {
		T := comps[i]
		N := sumInts(T)
		rng := w.Rng
		ref.Allocations(T, func(a []int) {
			s := sumInts(a)
			if s == 0 || s == N {
				return
			}
			vals := incValues(rng, len(T))
			x1, x2 := samplesFromAlloc(rng, T, a, vals)
			for _, alt := range alts {
				c01Judge(w, c01Case{x1, x2, int(alt)})
			}
		})
	})

	// far tails: one sample (almost) entirely above the other, then a few
	// random exchanges of neighbouring items, so that U sits 4..12 standard
	// deviations from its mean without being the extreme value
	r.Parallel("far-tail", r.Pick(300, 3000), func(w *mon.W, i int) {
		rng := w.Rng
		T, a := randomTieAlloc(rng, i)
		N := sumInts(T)
		n1 := sumInts(a)
		if n1 < 4 || N-n1 < 4 {
			return
		}
		// item list in ascending order of value: group index per item
		var grp []int
		for k, t := range T {
			for j := 0; j < t; j++ {
				grp = append(grp, k)
			}
		}
		in1 := make([]bool, N) // top n1 items (or bottom) go to sample 1
		top := rng.Intn(2) == 0
		for k := 0; k < n1; k++ {
			if top {
				in1[N-1-k] = true
			} else {
				in1[k] = true
			}
		}
		for ex := rng.Intn(1 + min(n1, N-n1)/3); ex > 0; ex-- {
			// exchange one item near the boundary between the two blocks
			b := n1
			if top {
				b = N - n1
			}
			p, q := b-1-rng.Intn(min(b, 4)), b+rng.Intn(min(N-b, 4))
			in1[p], in1[q] = in1[q], in1[p]
		}
		a = make([]int, len(T))
		for k := range grp {
			if in1[k] {
				a[grp[k]]++
			}
		}
		w.Hit("far-tail")
		vals := incValues(rng, len(T))
		x1, x2 := samplesFromAlloc(rng, T, a, vals)
		for _, alt := range alts {
			c01Judge(w, c01Case{x1, x2, int(alt)})
		}
	})

	// families of tie vectors that agree in everything a careless key could
	// be made of — the sizes, U, the alternative, the multiset or the digits
	// of the group sizes — and differ as vectors: all compositions of N into
	// two or three groups (group sizes up to 13, so two-digit sizes occur),
	// all allocations, bucketed by (n1, 2U); the members of a bucket are
	// judged back to back, forwards and then backwards, each against its own
	// exact distribution.
	type famMember struct{ T, a []int }
	buckets := map[[3]int][]famMember{}
	for _, N := range []int{11, 12, 13, 14} {
		var fam [][]int
		for a := 1; a < N; a++ {
			fam = append(fam, []int{a, N - a})
			for b := 1; a+b < N; b++ {
				fam = append(fam, []int{a, b, N - a - b})
			}
		}
		for _, T := range fam {
			T := T
			ref.Allocations(T, func(a []int) {
				n1 := sumInts(a)
				if n1 == 0 || n1 == N {
					return
				}
				// 2U from the allocation: pairs (first sample above second) + half the ties
				twoU, below2 := 0, 0
				for k := range T {
					twoU += a[k] * (2*below2 + (T[k] - a[k]))
					below2 += T[k] - a[k]
				}
				key := [3]int{N, n1, twoU}
				buckets[key] = append(buckets[key], famMember{T, append([]int(nil), a...)})
			})
		}
	}
	var keys [][3]int
	for k, ms := range buckets {
		distinct := map[string]bool{}
		for _, m := range ms {
			distinct[fmt.Sprint(m.T)] = true
		}
		if len(distinct) >= 2 {
			keys = append(keys, k)
		}
	}
	sort.Slice(keys, func(i, j int) bool {
		for d := 0; d < 3; d++ {
			if keys[i][d] != keys[j][d] {
				return keys[i][d] < keys[j][d]
			}
		}
		return false
	})
	if r.Quick && len(keys) > 1500 {
		// a fixed subsample in the quick tier
		var sub [][3]int
		for i := 0; i < len(keys); i += len(keys)/1500 + 1 {
			sub = append(sub, keys[i])
		}
		keys = sub
	}
	r.Parallel("tie-vector-families", len(keys), func(w *mon.W, i int) {
		ms := buckets[keys[i]]
		w.Hit("same-sizes-and-U-under-different-tie-vectors")
		order := make([]int, 0, 2*len(ms))
		for k := range ms {
			order = append(order, k)
		}
		for k := len(ms) - 1; k >= 0; k-- {
			order = append(order, k)
		}
		for _, k := range order {
			m := ms[k]
			vals := make([]float64, len(m.T))
			for j := range vals {
				vals[j] = float64(j) - 1.5
			}
			x1, x2 := samplesFromAlloc(w.Rng, m.T, m.a, vals)
			for _, alt := range alts {
				c01Judge(w, c01Case{x1, x2, int(alt)})
			}
		}
	})

	nr := r.Pick(400, 4000)
	r.Parallel("random", nr, func(w *mon.W, i int) {
		rng := w.Rng
		T, a := randomTieAlloc(rng, i)
		vals := incValues(rng, len(T))
		x1, x2 := samplesFromAlloc(rng, T, a, vals)
		for _, alt := range alts {
			c01Judge(w, c01Case{x1, x2, int(alt)})
		}
	})
}

// randomTieAlloc draws a tie vector and allocation within the exact limits
// from the shapes named in the design: untied up to 50+50, two distinct
// values only, one heavy tie + distinct rest, mostly distinct,
// mirror-asymmetric, one sample entirely above the other.
func randomTieAlloc(rng *mon.Rand, i int) (T, a []int) {
	return randomTieAllocLim(rng, i, stats.MannWhitneyExactLimit, stats.MannWhitneyTiesExactLimit)
}

// randomTieAllocLim is randomTieAlloc with the size limits given by the
// caller (C02's quantifier names 50+50 and 25+25 whatever the library's
// limit variables say).
func randomTieAllocLim(rng *mon.Rand, i int, eu, et int) (T, a []int) {
	pickN := func(lim int) int {
		if lim < 1 {
			return 1
		}
		switch rng.Intn(4) {
		case 0:
			return lim
		case 1:
			return 1 + rng.Intn(lim)
		default:
			return lim/2 + 1 + rng.Intn(lim-lim/2)
		}
	}
	clamp := func(n, lim int) int {
		if n < 1 {
			return 1
		}
		if n > lim {
			return lim
		}
		return n
	}
	shape := i % 6
	if shape == 0 {
		// untied
		n1, n2 := clamp(pickN(eu), eu), clamp(pickN(eu), eu)
		N := n1 + n2
		T = make([]int, N)
		a = make([]int, N)
		for k := range T {
			T[k] = 1
		}
		p := rng.Perm(N)
		if rng.Intn(5) == 0 {
			// one sample entirely above the other
			for k := 0; k < n1; k++ {
				a[N-1-k] = 1
			}
		} else {
			for k := 0; k < n1; k++ {
				a[p[k]] = 1
			}
		}
		return
	}
	n1, n2 := clamp(pickN(et), et), clamp(pickN(et), et)
	N := n1 + n2
	switch shape {
	case 1: // two distinct values only
		t0 := 1 + rng.Intn(N-1)
		T = []int{t0, N - t0}
	case 2: // one heavy tie + distinct rest
		h := N/2 + rng.Intn(N/2+1)
		if h > N-1 {
			h = N - 1
		}
		if h < 2 {
			h = min(2, N)
		}
		pos := rng.Intn(N - h + 1)
		for k := 0; k < pos; k++ {
			T = append(T, 1)
		}
		T = append(T, h)
		for k := pos + h; k < N; k++ {
			T = append(T, 1)
		}
	case 3: // mostly distinct
		rem := N
		for rem > 0 {
			t := 1
			if rng.Intn(6) == 0 {
				t = 2 + rng.Intn(2)
			}
			if t > rem {
				t = rem
			}
			T = append(T, t)
			rem -= t
		}
	case 4: // mirror-asymmetric: increasing group sizes
		rem, t := N, 1
		for rem > 0 {
			if t > rem {
				t = rem
			}
			T = append(T, t)
			rem -= t
			t += rng.Intn(2) + 1
		}
	default: // random composition
		rem := N
		for rem > 0 {
			t := 1 + rng.Intn(min(rem, 6))
			T = append(T, t)
			rem -= t
		}
	}
	if len(T) < 2 {
		T = []int{N - 1, 1}
		if N < 2 {
			T = []int{1, 1}
			n1, n2, N = 1, 1, 2
		}
	}
	// allocate n1 items among groups: random subset of the N items
	a = make([]int, len(T))
	if rng.Intn(6) == 0 {
		// first sample takes the top items
		left := n1
		for k := len(T) - 1; k >= 0 && left > 0; k-- {
			a[k] = min(T[k], left)
			left -= a[k]
		}
		return
	}
	p := rng.Perm(N)
	grp := make([]int, 0, N)
	for k, t := range T {
		for j := 0; j < t; j++ {
			grp = append(grp, k)
		}
	}
	for k := 0; k < n1; k++ {
		a[grp[p[k]]]++
	}
	_ = n2
	return
}
