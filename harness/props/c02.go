package props

import (
	"encoding/json"
	"fmt"
	"math"

	"github.com/aclements/go-moremath/stats"

	"verifmon/mon"
	"verifmon/ref"
)

// C02 — UDist is the exact null distribution of U for every tie vector.

type c02Case struct {
	N1, N2 int
	T      []int // nil = no ties
	// Us: the query points; empty = full half-integer grid from -1 to N1*N2+1
	Us []float64
	// noGuard: T is passed as it is (it is a row of a caller-owned flat array)
	noGuard bool
}

func init() {
	mon.Register(&mon.Prop{ID: "C02", Run: c02Run, Replay: func(w *mon.W, v *mon.ViolationRec) {
		var c c02Case
		if json.Unmarshal(v.Case, &c) == nil {
			c02Judge(w, c, true)
		}
	}})
}

func c02Judge(w *mon.W, c c02Case, full bool) {
	N1, N2 := c.N1, c.N2
	N := N1 + N2
	T := c.T
	refT := T
	if refT == nil {
		refT = make([]int, N)
		for i := range refT {
			refT[i] = 1
		}
	}
	ties := false
	for _, t := range refT {
		if t > 1 {
			ties = true
		}
	}
	tab := uCache.Get(refT, N1)
	// the tie vector handed to the library sits in the middle of a larger
	// array, with canaries before it and in its spare capacity (more than
	// twice its length), and is compared after the calls
	var tbuf []int
	var tcopy []int
	if T != nil && !c.noGuard {
		tcopy = append([]int(nil), T...)
		pre := len(T) + 2
		tbuf = make([]int, pre+len(T)+2*len(T)+3)
		for i := range tbuf {
			tbuf[i] = -7000 - i
		}
		copy(tbuf[pre:], T)
		T = tbuf[pre : pre+len(T)]
		defer func() {
			for i, v := range tbuf {
				want := -7000 - i
				if i >= pre && i < pre+len(tcopy) {
					want = tcopy[i-pre]
				}
				if v != want {
					w.Violate("T-modified", fmt.Sprintf("UDist{%d,%d,%v}: the library wrote %d at offset %d relative to the caller's tie vector (inside it, or into the memory before it / its spare capacity)", N1, N2, tcopy, v, i-pre), c02Case{N1: N1, N2: N2, T: tcopy, Us: c.Us})
					break
				}
			}
		}()
	}
	d := stats.UDist{N1: N1, N2: N2, T: T}
	dm := stats.UDist{N1: N2, N2: N1, T: T}
	max := float64(N1 * N2)

	w.HitIf(len(refT) == 2, "K=2")
	w.HitIf(refT[0] > 1, "leading-tie-group")
	w.HitIf(ties && !isPalindrome(refT), "tied-non-palindromic")
	w.HitIf(T == nil, "T=nil")
	w.HitIf(T != nil && !ties, "T=all-ones")
	w.Distinct(mon.NewHasher().I(N1).I(N2).Is(T).Fs(c.Us).Sum())

	us := c.Us
	grid := len(us) == 0
	nOff := 0
	if grid {
		for u := -1.0; u <= max+1; u += 0.5 {
			us = append(us, u)
		}
		for k := 0; k < 8; k++ {
			us = append(us, w.Rng.Uniform(-1, max+1))
		}
		nOff = 8
		// just below / above a few jump points, and far outside the range
		for k := 0; k < 4; k++ {
			g := float64(w.Rng.Intn(int(2*max)+1)) / 2
			us = append(us, math.Nextafter(g, math.Inf(-1)), g-1e-12, g-1e-9, g-1e-6, math.Nextafter(g, math.Inf(1)))
			nOff += 5
		}
		for _, f := range []float64{-1e6, 1e6, -0x1p62, 0x1p62, -0x1p63, 0x1p63, -1e19, 1e19, -1e300, 1e300, math.Inf(-1), math.Inf(1)} {
			us = append(us, f)
			nOff++
		}
		w.Hit("far-and-near-jump-points")
	}
	bad := func(kind, msg string, u float64) {
		w.Violate(kind, msg, c02Case{N1: N1, N2: N2, T: append([]int(nil), T...), Us: []float64{u}})
	}
	prev, prevU := math.Inf(-1), math.Inf(-1)
	sumPMF := 0.0
	for idx, u := range us {
		onGrid := grid && idx < len(us)-nOff
		uc := math.Max(-2, math.Min(u, max+2)) // the table lookup only needs the clamped point
		two := int(math.Floor(2 * uc))
		if !ties {
			two = 2 * int(math.Floor(uc))
		}
		// CDF
		var got float64
		w.Eval("UDist.CDF")
		if p, v := mon.Call(func() { got = d.CDF(u) }); p {
			bad("panic-CDF", fmt.Sprintf("UDist{%d,%d,%v}.CDF(%v) panicked: %v", N1, N2, T, u, v), u)
			continue
		}
		want := tab.CDF2(two)
		if u < 0 {
			want = 0
		}
		if u >= max {
			want = 1
		}
		// relative to the value: the lower tail is summed directly and the
		// tied counts are exact integers, so tiny masses must be right to
		// rounding, not merely to 1e-9 absolute
		// (tied counts go through Choose = exp(lgamma) above n = 20: about
		// 1e-13 relative, far inside 1e-9 relative, in both tails)
		floor := 1e-300
		if !w.Err("CDF", math.Abs(got-want), 1e-9*want+floor) {
			bad("CDF", fmt.Sprintf("UDist{%d,%d,%v}.CDF(%v)=%.12g, exact %.12g", N1, N2, T, u, got, want), u)
		}
		if (u < 0 && got != 0) || (u >= max && got != 1) {
			bad("CDF-outside", fmt.Sprintf("UDist{%d,%d,%v}.CDF(%v)=%v outside [0,N1N2)", N1, N2, T, u, got), u)
		}
		if onGrid {
			if got < prev-1e-12 {
				bad("CDF-monotone", fmt.Sprintf("UDist{%d,%d,%v}: CDF(%v)=%.15g < CDF(%v)=%.15g", N1, N2, T, u, got, prevU, prev), u)
			}
			prev, prevU = got, u
		}
		if !ties && u >= 0 && u < max {
			if math.Floor(u) >= float64((N1*N2+1)/2) {
				w.Hit("untied-u-above-centre")
			} else {
				w.Hit("untied-u-below-centre")
			}
		}
		w.HitIf(ties && u >= 0 && want == 0, "tied-u-below-feasible-min")
		w.HitIf(ties && u < max && want == 1, "tied-u-above-feasible-max")

		// PMF: asserted at attainable points, and (tied) at non-attainable
		// half-integer grid points inside the range; the untied PMF at
		// non-integers is not defined by the statement.
		isGridPoint := 2*u == math.Floor(2*u)
		if !isGridPoint || u < 0 || u > max {
			continue
		}
		twoU := int(2 * u)
		attainable := tab.PMF2(twoU) > 0
		if !ties && twoU%2 == 1 {
			continue
		}
		var pm float64
		w.Eval("UDist.PMF")
		if p, v := mon.Call(func() { pm = d.PMF(u) }); p {
			bad("panic-PMF", fmt.Sprintf("UDist{%d,%d,%v}.PMF(%v) panicked: %v", N1, N2, T, u, v), u)
			continue
		}
		// a tied mass is obtained as a difference of cumulative counts: its
		// rounding noise scales with the cumulative probability there (1e-12
		// of it), not with 1 — in the lower tail tiny masses must be right
		pfloor := floor
		if ties {
			pfloor = 1e-12*want + 1e-300
		}
		w.HitIf(ties && attainable && tab.PMF2(twoU) < 1e-13, "tied-attainable-mass-below-1e-13")
		if !w.Err("PMF", math.Abs(pm-tab.PMF2(twoU)), 1e-9*tab.PMF2(twoU)+pfloor) {
			bad("PMF", fmt.Sprintf("UDist{%d,%d,%v}.PMF(%v)=%.12g, exact %.12g (attainable=%v)", N1, N2, T, u, pm, tab.PMF2(twoU), attainable), u)
		}
		if onGrid {
			sumPMF += pm
		}
		if attainable {
			// mirror law
			var pm2 float64
			w.Eval("UDist.PMF(mirror)")
			if p, v := mon.Call(func() { pm2 = dm.PMF(max - u) }); p {
				bad("panic-PMF", fmt.Sprintf("UDist{%d,%d,%v}.PMF(%v) panicked: %v", N2, N1, T, max-u, v), u)
				continue
			}
			mfloor := floor
			if ties {
				mfloor = 1e-13
			}
			if math.Abs(pm-pm2) > 1e-9*math.Max(pm, pm2)+mfloor {
				bad("mirror", fmt.Sprintf("PMF_{%d,%d,%v}(%v)=%.12g but PMF_{%d,%d}(%v)=%.12g", N1, N2, T, u, pm, N2, N1, max-u, pm2), u)
			}
		}
	}
	if grid {
		if math.Abs(sumPMF-1) > 1e-9 {
			w.Violate("mass", fmt.Sprintf("UDist{%d,%d,%v}: masses sum to %.12g", N1, N2, T, sumPMF), c02Case{N1: N1, N2: N2, T: T})
		}
		lo, hi := d.Bounds()
		w.Eval("UDist.Bounds")
		if lo != 0 || hi != max || d.Step() != 0.5 {
			w.Violate("bounds", fmt.Sprintf("UDist{%d,%d,%v}: Bounds=(%v,%v) Step=%v", N1, N2, T, lo, hi, d.Step()), c02Case{N1: N1, N2: N2, T: T})
		}
	}
	if w.WantSample() {
		w.Sample(map[string]any{"N1": N1, "N2": N2, "T": T, "points": len(us), "ref_counts_2U": fmt.Sprint(tab.Count)})
	}
}

func c02Run(r *mon.Run) {
	r.Rule("every (N1,N2,T) with N1+N2<=10 (thorough 14), T = nil, all-ones, every composition with >=2 parts; u on the half-integer grid -1..N1N2+1 plus 8 random reals; random large distributions up to 50+50 untied / 25+25 tied on 40 sampled grid points. Non-trivial: hits a class (K=2, leading tie group, tied non-palindromic, nil/all-ones T, feasibility edges); distinct by hash of (N1,N2,T,points).")
	r.Assume("reference: subset enumeration (N<=14), 128-bit generating-function DP above, cross-checked at start-up")
	r.Gate("recycled-T-buffer", "far-and-near-jump-points", "K=2", "leading-tie-group", "untied-u-above-centre", "untied-u-below-centre", "tied-u-below-feasible-min", "T=nil", "T=all-ones", "large-untied", "large-tied", "tied-n-reaches-25", "permuted-tie-vector-same-sizes", "corner-of-the-stated-range", "U-test-limit-variables-changed", "three-groups-large", "tie-vectors-as-rows-of-one-array", "tied-attainable-mass-below-1e-13", "one-tie-vector-slice-shared-by-concurrent-callers")
	if err := ref.USelfTest(r.Pick(8, 9)); err != nil {
		r.Inconclusive("reference self-test failed: " + err.Error())
		return
	}
	maxN := r.Pick(10, 14)
	type dist struct {
		N1 int
		T  []int
	}
	var ds []dist
	for N := 2; N <= maxN; N++ {
		for n1 := 1; n1 < N; n1++ {
			ds = append(ds, dist{n1, nil})
		}
		ref.Compositions(N, 2, func(T []int) {
			t := append([]int(nil), T...)
			for n1 := 1; n1 < N; n1++ {
				ds = append(ds, dist{n1, t})
			}
		})
	}
	r.Exhaustive(fmt.Sprintf("all (N1,N2,T) with N1+N2<=%d on the full half-integer grid", maxN))
	r.Parallel("exhaustive", len(ds), func(w *mon.W, i int) {
		d := ds[i]
		if d.T == nil {
			return // covered by the exhaustive-nil class
		}
		n2 := sumInts(d.T) - d.N1
		c02Judge(w, c02Case{N1: d.N1, N2: n2, T: d.T}, true)
	})
	// T=nil distributions
	var nils [][2]int
	for N := 2; N <= maxN; N++ {
		for n1 := 1; n1 < N; n1++ {
			nils = append(nils, [2]int{n1, N - n1})
		}
	}
	r.Parallel("exhaustive-nil", len(nils), func(w *mon.W, i int) {
		c02Judge(w, c02Case{N1: nils[i][0], N2: nils[i][1]}, true)
	})

	// a tie vector held in a buffer that the caller refills: the result must
	// follow the contents, not the identity of the slice
	r.Parallel("recycled-T-buffer", r.Pick(300, 3000), func(w *mon.W, i int) {
		rng := w.Rng
		N := rng.Range(4, 9)
		var ts [][]int
		ref.Compositions(N, 2, func(T []int) { ts = append(ts, append([]int(nil), T...)) })
		k := rng.Range(2, 4)
		var same [][]int
		want := ts[rng.Intn(len(ts))]
		for _, t := range ts {
			if len(t) == len(want) {
				same = append(same, t)
			}
		}
		buf := make([]int, len(want))
		n1 := rng.Range(1, N-1)
		w.Hit("recycled-T-buffer")
		for round := 0; round < 3; round++ {
			copy(buf, same[rng.Intn(len(same))])
			// (the caller's own buffer is what the library must see: no guard copy)
			c02Judge(w, c02Case{N1: n1, N2: N - n1, T: buf, noGuard: true, Us: []float64{float64(rng.Intn(2*n1*(N-n1)+1)) / 2, rng.Uniform(0, float64(n1*(N-n1))), float64(n1*(N-n1)) / 2}}, false)
		}
		_ = k
	})

	nr := r.Pick(60, 600)
	r.Parallel("random-large", nr, func(w *mon.W, i int) {
		rng := w.Rng
		var c c02Case
		if i%2 == 0 {
			c.N1, c.N2 = rng.Range(11, 50), rng.Range(11, 50)
			if i%6 == 4 {
				c.N1 = rng.Range(1, 10) // one small side: not covered by the exhaustive N<=10 (14) set
			}
			if i%8 == 0 {
				c.N1 = 50
			}
			if i%8 == 2 {
				c.N2 = 50
			}
			if i%12 == 10 {
				c.N2 = rng.Range(1, 10) // N1 > N2 <= 10 with N1+N2 beyond the exhaustive set
			}
			if rng.Bool() {
				c.T = make([]int, c.N1+c.N2)
				for k := range c.T {
					c.T[k] = 1
				}
			}
			w.Hit("large-untied")
		} else {
			T, a := randomTieAllocLim(rng, 1+rng.Intn(5), 50, 25)
			c.T = T
			c.N1 = sumInts(a)
			c.N2 = sumInts(T) - c.N1
			if c.N1 < 1 || c.N2 < 1 {
				return
			}
			w.Hit("large-tied")
			w.HitIf(c.N1 == 25 || c.N2 == 25, "tied-n-reaches-25")
		}
		max := c.N1 * c.N2
		for k := 0; k < 40; k++ {
			var u float64
			switch k % 4 {
			case 0:
				u = float64(rng.Intn(2*max+5)-2) / 2
			case 1: // near centre
				u = float64(max+rng.Range(-12, 12)) / 2
			case 2: // tails
				if rng.Bool() {
					u = float64(rng.Intn(max/4+2)) / 2
				} else {
					u = float64(2*max-rng.Intn(max/4+2)) / 2
				}
			default:
				u = rng.Uniform(-1, float64(max)+1)
			}
			c.Us = append(c.Us, u)
		}
		// one ulp around a few jump points, far outside, and both zeros
		for k := 0; k < 4; k++ {
			j := float64(rng.Intn(2*max+1)) / 2
			c.Us = append(c.Us, math.Nextafter(j, math.Inf(-1)), math.Nextafter(j, math.Inf(1)))
		}
		c.Us = append(c.Us, math.Copysign(0, -1), 0, -1e6, 1e9, float64(max)+1e6, math.Inf(1), math.Inf(-1))
		c02Judge(w, c, false)
		// the same sizes and query points with the tie vector permuted: a
		// different distribution with its own reference; anything keyed on
		// less than the whole vector (lengths, sums, hashes) mixes them up
		if c.T != nil && len(c.T) > 2 {
			for rep := 0; rep < 2; rep++ {
				p := append([]int(nil), c.T...)
				if rep == 0 {
					p[0], p[len(p)-1] = p[len(p)-1], p[0]
					p = append(p[1:], p[0]) // a rotation of the swapped vector
				} else {
					rng.ShuffleI(p)
				}
				w.Hit("permuted-tie-vector-same-sizes")
				c02Judge(w, c02Case{N1: c.N1, N2: c.N2, T: p, Us: c.Us}, false)
			}
		}
	})

	// every tie vector with three groups at a few large sizes: thousands of
	// distributions that agree in N1, N2 and the number of groups and differ
	// only in the group sizes (including sizes above 31), all in one process
	var three []c02Case
	sizes := []int{34, 36, 40, 44, 47, 50}
	if r.Quick {
		sizes = []int{36, 50}
	}
	for _, N := range sizes {
		n1 := N / 2
		for a := 1; a <= N-2; a++ {
			for b := 1; a+b <= N-1; b++ {
				three = append(three, c02Case{N1: n1, N2: N - n1, T: []int{a, b, N - a - b}})
			}
		}
	}
	r.Parallel("three-groups-large", len(three), func(w *mon.W, i int) {
		c := three[i]
		w.Hit("three-groups-large")
		max := c.N1 * c.N2
		c.Us = []float64{float64(w.Rng.Intn(2*max+1)) / 2, float64(max) / 2, float64(max/2+w.Rng.Range(-20, 20)) / 1, float64(w.Rng.Intn(max + 1)), 0, float64(max)}
		c02Judge(w, c, false)
	})

	// one tie-vector slice shared by the workers: eight vectors, each used
	// (as the very same slice) by the cases that run side by side
	sharedT := [][]int{{1, 2, 3, 4}, {4, 1, 1, 2, 2}, {2, 1, 5}, {1, 1, 2, 1, 3, 1}, {3, 3, 1, 2}, {1, 4, 2, 2, 1}, {2, 2, 2, 1, 1, 1}, {5, 1, 2, 3}}
	r.Parallel("shared-T-across-workers", r.Pick(2000, 20000), func(w *mon.W, i int) {
		rng := w.Rng
		T := sharedT[(i/16)%len(sharedT)]
		N := sumInts(T)
		n1 := 1 + (i/128)%(N-1)
		max := n1 * (N - n1)
		w.Hit("one-tie-vector-slice-shared-by-concurrent-callers")
		c02Judge(w, c02Case{N1: n1, N2: N - n1, T: T, noGuard: true, Us: []float64{float64(rng.Intn(2*max+1)) / 2, float64(max - rng.Intn(max/2+1)), float64(rng.Intn(max/2+1))}}, false)
	})

	// tie vectors kept as rows of one flat array (each row's capacity runs
	// over the following rows): every row judged in turn, the whole array
	// compared with a pristine copy after each
	r.Parallel("flat-rows", r.Pick(300, 3000), func(w *mon.W, i int) {
		rng := w.Rng
		L, rows := rng.Range(2, 5), rng.Range(2, 5)
		N := rng.Range(L+2, 14)
		flat := make([]int, 0, L*rows)
		for k := 0; k < rows; k++ {
			// a random composition of N into L parts
			cuts := rng.Perm(N - 1)[:L-1]
			sortInts(cuts)
			prev := 0
			for _, cpt := range cuts {
				flat = append(flat, cpt+1-prev)
				prev = cpt + 1
			}
			flat = append(flat, N-prev)
		}
		pristine := append([]int(nil), flat...)
		n1 := rng.Range(1, N-1)
		w.Hit("tie-vectors-as-rows-of-one-array")
		for pass := 0; pass < 2; pass++ {
			for k := 0; k < rows; k++ {
				row := flat[k*L : (k+1)*L]
				max := n1 * (N - n1)
				us := []float64{float64(rng.Intn(2*max+1)) / 2, float64(max), float64(max) / 2, float64(max - rng.Intn(max/2+1))}
				c02Judge(w, c02Case{N1: n1, N2: N - n1, T: row, Us: us, noGuard: true}, false)
				for j := range flat {
					if flat[j] != pristine[j] {
						w.Violate("T-modified", fmt.Sprintf("after UDist{%d,%d,T=row %d of %v}: the caller's array reads %v (a neighbouring row was overwritten)", n1, N-n1, k, pristine, flat), c02Case{N1: n1, N2: N - n1, T: append([]int(nil), pristine[k*L:(k+1)*L]...), Us: us})
						return
					}
				}
			}
		}
	})

	// the corners of the stated range, whatever the seed
	corners := []c02Case{{N1: 50, N2: 50}, {N1: 50, N2: 1}, {N1: 1, N2: 50}, {N1: 50, N2: 10}, {N1: 10, N2: 50}, {N1: 49, N2: 50}}
	for _, sz := range [][2]int{{25, 25}, {25, 1}, {1, 25}, {24, 25}} {
		n := sz[0] + sz[1]
		corners = append(corners,
			c02Case{N1: sz[0], N2: sz[1], T: []int{n - 1, 1}}, c02Case{N1: sz[0], N2: sz[1], T: []int{1, n - 1}},
			c02Case{N1: sz[0], N2: sz[1], T: c02Pairs(n)})
	}
	r.Parallel("corners", len(corners), func(w *mon.W, i int) {
		c := corners[i]
		w.Hit("corner-of-the-stated-range")
		max := c.N1 * c.N2
		for k := 0; k <= 2*max; k += 1 + max/40 {
			c.Us = append(c.Us, float64(k)/2)
		}
		c.Us = append(c.Us, -0.5, 0, float64(max), float64(max)+0.5, float64(max)/2)
		c02Judge(w, c, false)
	})

	// UDist is a distribution, not a test: the U-test's public limit
	// variables must not change it
	du, dt := stats.MannWhitneyExactLimit, stats.MannWhitneyTiesExactLimit
	for _, lim := range [][2]int{{3, 3}, {0, 0}, {1000, 1000}} {
		stats.MannWhitneyExactLimit, stats.MannWhitneyTiesExactLimit = lim[0], lim[1]
		r.Parallel(fmt.Sprintf("under-limits(%d,%d)", lim[0], lim[1]), r.Pick(12, 60), func(w *mon.W, i int) {
			rng := w.Rng
			w.Hit("U-test-limit-variables-changed")
			var c c02Case
			if i%2 == 0 {
				c.N1, c.N2 = rng.Range(4, 14), rng.Range(4, 14)
			} else {
				T, a := randomTieAllocLim(rng, 1+rng.Intn(5), 12, 12)
				c.T, c.N1 = T, sumInts(a)
				c.N2 = sumInts(T) - c.N1
				if c.N1 < 1 || c.N2 < 1 {
					return
				}
			}
			max := c.N1 * c.N2
			for k := 0; k < 24; k++ {
				c.Us = append(c.Us, float64(rng.Intn(2*max+1))/2)
			}
			c.Us = append(c.Us, 0, float64(max))
			c02Judge(w, c, false)
		})
	}
	stats.MannWhitneyExactLimit, stats.MannWhitneyTiesExactLimit = du, dt
}

func sortInts(xs []int) {
	for i := 1; i < len(xs); i++ {
		for j := i; j > 0 && xs[j] < xs[j-1]; j-- {
			xs[j], xs[j-1] = xs[j-1], xs[j]
		}
	}
}

// c02Pairs is the tie vector 2,2,...,2(,1) of total n.
func c02Pairs(n int) []int {
	var T []int
	for ; n >= 2; n -= 2 {
		T = append(T, 2)
	}
	if n == 1 {
		T = append(T, 1)
	}
	return T
}
