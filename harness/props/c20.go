package props

import (
	"encoding/json"
	"fmt"
	"go/ast"
	"go/parser"
	"go/token"
	"math"
	"math/rand"
	"os"
	"os/exec"
	"path/filepath"
	"sort"
	"strconv"
	"strings"
	"sync"
	"sync/atomic"

	"github.com/aclements/go-moremath/fit"
	"github.com/aclements/go-moremath/graph"
	"github.com/aclements/go-moremath/graph/graphalg"
	"github.com/aclements/go-moremath/graph/graphout"
	"github.com/aclements/go-moremath/mathx"
	"github.com/aclements/go-moremath/scale"
	"github.com/aclements/go-moremath/stats"
	"github.com/aclements/go-moremath/vec"

	"verifmon/mon"
)

// C20 — API calls are pure: inputs untouched, results deterministic, race-free.
//
// Stages (DESIGN section 5, C20):
//   guard        every entry point on inputs carved out of canaried arrays; all
//                input memory compared bit for bit before/after each call
//   determinism  each call repeated after a block of unrelated calls into every
//                package; results bit-identical
//   concurrency  (VERIF_STAGE=race, race-detector build) 16 goroutines run the
//                same call list on the same shared inputs, released by closing
//                one channel, joined by a WaitGroup, nothing else synchronises;
//                results compared with the sequential ones after the join
//   overlap      evidence only: how many call pairs on the same inputs really
//                overlapped in time

type c20Case struct {
	Bundle uint64 `json:"bundle_seed"`
	Entry  string `json:"entry"`
}

func init() {
	mon.Register(&mon.Prop{ID: "C20", Run: c20Run, Replay: func(w *mon.W, v *mon.ViolationRec) {
		var c c20Case
		if json.Unmarshal(v.Case, &c) == nil {
			c20One(w, c.Bundle, c.Bundle+1, c.Entry)
		}
	}})
}

// enc is a canonical bit-exact encoding of a result.
type enc struct {
	u []uint64
	// evaluation order of the calls inside one entry: rev = descending /
	// swapped, rot = rotation (set per goroutine in the concurrent stages,
	// and in the second process of the cross-process stage). The encoding is
	// always in canonical order, so results are comparable across orders.
	rev bool
	rot int
}

// seq returns the indexes 0..n-1 in the evaluation order of this call.
func (e *enc) seq(n int) []int {
	out := make([]int, n)
	for i := range out {
		k := (i + e.rot) % n
		if e.rev {
			k = n - 1 - k
		}
		out[i] = k
	}
	return out
}

// each evaluates f(i) for i in 0..n-1 in the evaluation order and encodes the
// m results per index in canonical order.
func (e *enc) each(n, m int, f func(i int) []float64) {
	if n <= 0 {
		return
	}
	res := make([][]float64, n)
	for _, i := range e.seq(n) {
		res[i] = f(i)
	}
	for _, r := range res {
		for _, x := range r {
			e.F(x)
		}
	}
}

func (e *enc) F(x float64) { e.u = append(e.u, math.Float64bits(x)) }
func (e *enc) I(x int)     { e.u = append(e.u, uint64(x)) }
func (e *enc) B(x bool)    { e.I(map[bool]int{false: 0, true: 1}[x]) }
func (e *enc) S(s string)  { e.I(len(s)); e.u = append(e.u, mon.HashStr(s)) }
func (e *enc) Fs(xs []float64) {
	e.I(len(xs))
	if len(xs) > encLongSlice {
		// large-input bundles: a long result is encoded by a digest of its
		// bits (equal bits give equal digests, so nothing is demanded that
		// the word-by-word comparison would not demand)
		e.u = append(e.u, mon.NewHasher().Fs(xs).Sum())
		return
	}
	for _, x := range xs {
		e.F(x)
	}
}
func (e *enc) Is(xs []int) {
	e.I(len(xs))
	for _, x := range xs {
		e.I(x)
	}
}
func (e *enc) Iss(xs [][]int) {
	e.I(len(xs))
	for _, x := range xs {
		e.Is(x)
	}
}
func (e *enc) Err(err error) {
	if err == nil {
		e.I(0)
	} else {
		e.S(err.Error())
	}
}
func (e *enc) G(g graph.Graph) {
	e.I(g.NumNodes())
	for i := 0; i < g.NumNodes(); i++ {
		e.Is(g.Out(i))
	}
}

// encLongSlice: result slices longer than this are encoded by digest (only the
// large-input bundles produce them: the other bundles stay below 1300 values).
const encLongSlice = 4096

func equalU(a, b []uint64) bool {
	if len(a) != len(b) {
		return false
	}
	for i := range a {
		if a[i] != b[i] {
			return false
		}
	}
	return true
}

// bundle is one set of shared read-only inputs. Every slice lives inside a
// larger backing array with canaries around it and in its spare capacity.
type bundle struct {
	seed   uint64
	fbacks [][]float64
	ibacks [][]int
	names  []string // name per backing (f backs first, then i backs)

	xs, ys, ws, xpos, x1, x2, p1, p2, grid []float64
	sw, su                                 stats.Sample // weighted, unweighted (unsorted, ties)
	kde                                    *stats.KDE
	kdeB                                   *stats.KDE
	kde0                                   *stats.KDE   // Bandwidth 0: used through private struct copies only
	big        bool
	// large-input bundles (seed&31 == 16): sizes drawn per family of entry
	// points from the former maximum up to 10^4..10^5 (c20Size); top1 / top2
	// put the linear-time families / the sorting families in the upper half
	// of their size range
	huge, top1, top2 bool
	lxu              []float64 // the LOESS abscissae in shuffled order
	fregs      [][2]int          // per float backing: offset and length of the data inside it
	carvedHash map[string]uint64 // hash of each float backing at the moment it was carved
	damage     []string          // inputs found modified by the library calls made while the bundle was built
	carvedI    []uint64 // hash of each int backing when carved
	carvedE    []uint64 // hash of each edge backing when carved
	swz                                    stats.Sample // weighted with zero weights inside and at the end
	// results returned by the library when the bundle was built and only
	// queried afterwards (by many callers at once in the concurrent stages)
	rDom    *graphalg.DomTree
	rSub    []graph.Subgraph
	rSCC    *graphalg.SCCGraph
	rSimp   graph.Weighted
	lx      []float64 // sorted xs for the shared LOESS fit on all n points
	loessN  func(float64) float64
	ebacks  [][]graph.Edge
	attrTab []graphout.DotAttr // shared table: callbacks return sub-slices with spare capacity
	lh      *stats.LinearHist
	gh      *stats.LogHist
	marks   *graphalg.NodeMarks
	ss      *stats.StreamStats
	// closures returned by the library, shared by all callers of the bundle
	invT, invB, invK   func(float64) float64
	genT               func(*rand.Rand) float64
	loess              func(float64) float64
	pr                 fit.PolynomialRegressionResult
	vsqrt              func([]float64) []float64
	levels             []float64
	lin                *scale.Linear
	lg                 *scale.Log
	g, g2              graph.IntGraph
	wg                 *c20Weighted
	bi                 graph.BiGraph
	idom               []int
	keepNodes, rmNodes []int
	keepEdges, rmEdges []graph.Edge
	root               int
	labels             []string
	ud                 stats.UDist
	n                  int
	q, c, y, x         float64
	rseed              int64
}

type c20Weighted struct {
	graph.IntGraph
	w [][]float64
}

func (g *c20Weighted) OutWeight(i, e int) float64 { return g.w[i][e] }

const canaryBase = 0x7ff8c0de00000000

func (b *bundle) carveF(name string, rng *mon.Rand, xs []float64) []float64 {
	pre, spare, post := 2, rng.Intn(3), 2
	back := make([]float64, pre+len(xs)+spare+post)
	for i := range back {
		back[i] = math.Float64frombits(canaryBase + uint64(i))
	}
	copy(back[pre:], xs)
	b.fbacks = append(b.fbacks, back)
	b.names = append(b.names, name)
	b.fregs = append(b.fregs, [2]int{pre, len(xs)})
	if b.carvedHash == nil {
		b.carvedHash = map[string]uint64{}
	}
	b.carvedHash[name] = mon.NewHasher().Fs(back).Sum()
	return back[pre : pre+len(xs) : pre+len(xs)+spare]
}

func (b *bundle) carveI(name string, rng *mon.Rand, xs []int) []int {
	pre, spare, post := 2, rng.Intn(3), 2
	back := make([]int, pre+len(xs)+spare+post)
	for i := range back {
		back[i] = -0x5eed0000 - i
	}
	copy(back[pre:], xs)
	b.ibacks = append(b.ibacks, back)
	b.carvedI = append(b.carvedI, mon.NewHasher().Is(back).Sum())
	return back[pre : pre+len(xs) : pre+len(xs)+spare]
}

func (b *bundle) carveE(rng *mon.Rand, xs []graph.Edge) []graph.Edge {
	pre, spare, post := 2, rng.Intn(3), 2
	back := make([]graph.Edge, pre+len(xs)+spare+post)
	for i := range back {
		back[i] = graph.Edge{Node: -0x5eed0000 - i, Edge: -7 - i}
	}
	copy(back[pre:], xs)
	b.ebacks = append(b.ebacks, back)
	b.carvedE = append(b.carvedE, hashEdges(back))
	return back[pre : pre+len(xs) : pre+len(xs)+spare]
}

func hashEdges(es []graph.Edge) uint64 {
	h := mon.NewHasher()
	for _, ed := range es {
		h = h.I(ed.Node).I(ed.Edge)
	}
	return h.Sum()
}

// snapshot hashes every piece of input memory, one hash per named region.
func (b *bundle) snapshot() map[string]uint64 {
	m := map[string]uint64{}
	for i, back := range b.fbacks {
		m[b.names[i]] = mon.NewHasher().Fs(back).Sum()
	}
	h := mon.NewHasher()
	for _, back := range b.ibacks {
		h = h.Is(back)
	}
	m["int-slices(graphs,idom,node lists)"] = h.Sum()
	he := mon.NewHasher()
	for _, back := range b.ebacks {
		for _, ed := range back {
			he = he.I(ed.Node).I(ed.Edge)
		}
	}
	m["edge-lists(SubgraphKeep/Remove arguments)"] = he.Sum()
	ha := mon.NewHasher()
	for _, a := range b.attrTab {
		ha = ha.S(a.Name).S(fmt.Sprint(a.Val))
	}
	m["Dot attribute table (slices returned by NodeAttrs/EdgeAttrs)"] = ha.Sum()
	hs := mon.NewHasher().B(b.sw.Sorted).B(b.su.Sorted).F(b.kde.Bandwidth).F(b.kdeB.Bandwidth).F(b.kdeB.BoundaryMin).F(b.kdeB.BoundaryMax).I(int(b.kde.Kernel)).
		F(b.kde0.Bandwidth).B(b.kde0.Sample.Sorted).I(int(b.kde0.Kernel)).
		F(b.lin.Min).F(b.lin.Max).I(b.lin.Base).B(b.lin.Clamp).F(b.lg.Min).F(b.lg.Max).I(b.lg.Base).B(b.lg.Clamp)
	m["struct-fields(Sample.Sorted,KDE,scales)"] = hs.Sum()
	u, cs, o := b.lh.Counts()
	hh := mon.NewHasher().U(uint64(u)).U(uint64(o))
	for _, c := range cs {
		hh = hh.U(uint64(c))
	}
	u, cs, o = b.gh.Counts()
	hh = hh.U(uint64(u)).U(uint64(o))
	for _, c := range cs {
		hh = hh.U(uint64(c))
	}
	m["histogram-counters"] = hh.Sum()
	hm := mon.NewHasher()
	for i := -1; i < 1300; i++ {
		hm = hm.B(b.marks.Test(i))
	}
	m["NodeMarks"] = hm.Sum()
	m["StreamStats"] = mon.NewHasher().U(uint64(b.ss.Count)).F(b.ss.Total).F(b.ss.Min).F(b.ss.Max).F(b.ss.Mean()).F(b.ss.RMS()).F(b.ss.Variance()).Sum()
	return m
}

func newBundle(seed uint64) *bundle {
	rng := mon.NewRand(seed, 0xc20)
	b := &bundle{seed: seed}
	// seeds with the low five bits clear give BIG bundles (hundreds of
	// values, a graph of more than 1024 nodes, U-test samples beyond the
	// exact limits), so that size-selected paths of the library run in every
	// stage; the stages force a share of such seeds
	big := seed&31 == 0
	b.big = big
	// seeds with the low five bits 10000 give LARGE-INPUT bundles: every
	// family of entry points gets its own size, drawn by c20Size between the
	// big bundles' maximum and 10^4..10^5 (log-uniform, or at / just beyond a
	// round number), so that anything the library switches on above a size
	// cutoff (block processing, parallel or in-place fast paths, scratch
	// buffers kept for wide windows, caches) runs in every stage. The data are
	// full-precision numbers of mixed magnitude: a sum of them depends on the
	// order of the additions. The sorting / bisection families (Samples,
	// KDEs, U-test samples, graph) are smaller than the linear-time ones
	// (slices, fits, LOESS windows) to keep the cost moderate.
	huge := seed&31 == 16
	b.huge, b.top1, b.top2 = huge, huge && seed&32 != 0, huge && seed&64 != 0
	reduced := huge && seed&128 != 0 // a quarter of the size ranges (race-detector build, quick tier)
	size := func(lo, hi int, top bool) int {
		if reduced {
			hi /= 4
		}
		if top {
			lo = hi / 2
		}
		return c20Size(rng, lo, hi)
	}
	n := rng.Range(6, 30)
	if big {
		n = rng.Range(100, 400)
	}
	nS, nK := n, n // sizes of the Samples and of the KDEs' Sample
	if huge {
		n = size(400, 131072, b.top1)
		nS = size(400, 32768, b.top2)
		nK = size(400, 8192, b.top2)
	}
	vals := func(n int, pos bool) []float64 {
		xs := make([]float64, n)
		k := 2 + rng.Intn(n) // few distinct values -> ties
		pool := make([]float64, k)
		for i := range pool {
			pool[i] = math.Round(rng.Norm()*300) / 8
			if huge {
				pool[i] = rng.Norm() * 300 * rng.LogUniform(0.01, 100)
			}
			if pos {
				pool[i] = math.Abs(pool[i]) + 0.125
			}
		}
		for i := range xs {
			xs[i] = pool[rng.Intn(k)]
		}
		// make sure the data are not already sorted
		if sort.Float64sAreSorted(xs) && n > 1 {
			xs[0], xs[n-1] = xs[n-1]+1, xs[0]
		}
		return xs
	}
	b.xs = b.carveF("xs", rng, vals(n, false))
	b.ys = b.carveF("ys", rng, vals(n, false))
	mkW := func(n int) []float64 {
		w := make([]float64, n)
		for i := range w {
			w[i] = float64(1 + rng.Intn(4))
			if huge {
				w[i] += 0.1 * float64(rng.Intn(7)) // not exactly summable
			}
		}
		return w
	}
	w := mkW(n)
	b.ws = b.carveF("weights", rng, w)
	b.xpos = b.carveF("positive xs", rng, vals(n, true))
	nx1, nx2 := rng.Range(3, 20), rng.Range(3, 20)
	if big {
		nx1, nx2 = rng.Range(60, 150), rng.Range(60, 150)
	}
	if huge {
		nx1, nx2 = size(150, 8192, b.top2), size(150, 8192, b.top2)
	}
	b.x1 = b.carveF("x1", rng, vals(nx1, false))
	b.x2 = b.carveF("x2", rng, vals(nx2, false))
	np := rng.Range(3, 15)
	if huge {
		np = size(15, 65536, b.top1)
	}
	b.p1 = b.carveF("paired x1", rng, vals(np, false))
	b.p2 = b.carveF("paired x2", rng, vals(np, false))
	b.grid = b.carveF("grid", rng, []float64{-3, 0.5, 2, -1, 7, 0.5})
	if huge {
		w = mkW(nS)
	}
	b.sw = stats.Sample{Xs: b.carveF("Sample(weighted).Xs", rng, vals(nS, true)), Weights: b.carveF("Sample(weighted).Weights", rng, w)}
	b.su = stats.Sample{Xs: b.carveF("Sample(unweighted).Xs", rng, vals(nS, false))}
	mkWZ := func(n int) []float64 {
		wz := make([]float64, n)
		for i := range wz {
			wz[i] = float64(rng.Intn(5)) // zeros inside
			if huge {
				wz[i] *= 0.7
			}
		}
		wz[n-1] = 0 // and at the end
		wz[rng.Intn(n-1)] = 2
		return wz
	}
	wz := mkWZ(nS)
	b.swz = stats.Sample{Xs: b.carveF("Sample(zero weights).Xs", rng, vals(nS, true)), Weights: b.carveF("Sample(zero weights).Weights", rng, wz)}
	kx := b.carveF("KDE.Sample.Xs", rng, vals(nK, false))
	b.kde = &stats.KDE{Sample: stats.Sample{Xs: kx}, Kernel: stats.KDEKernel(rng.Intn(2)), Bandwidth: rng.Uniform(0.5, 20)}
	lo, hi := stats.Bounds(kx)
	if huge {
		wz = mkWZ(nK)
	}
	b.kdeB = &stats.KDE{Sample: stats.Sample{Xs: kx, Weights: b.carveF("KDE.Sample.Weights", rng, wz)}, Kernel: stats.GaussianKernel, Bandwidth: rng.Uniform(0.5, 20),
		BoundaryMin: lo - 1, BoundaryMax: hi + 2}
	// a KDE whose Bandwidth is still 0 (the lazily filled field is a
	// documented in-place operation, so callers work on private struct copies;
	// the Sample's backing arrays are shared)
	k0 := vals(nS, false)
	for i := range k0 {
		k0[i] += float64(i%7) * 0.375 // distinct enough for a non-zero IQR and spread
	}
	// (unweighted: the default bandwidth of a weighted Sample is documented as not implemented)
	b.kde0 = &stats.KDE{Sample: stats.Sample{Xs: b.carveF("KDE(Bandwidth 0).Sample.Xs", rng, k0)}, Kernel: stats.KDEKernel(rng.Intn(2))}
	b.lh = stats.NewLinearHist(-40, 40, 16)
	b.gh = stats.NewLogHist(2, 2, 1e3)
	for i := 0; i < 60; i++ {
		b.lh.Add(rng.Norm() * 30)
		b.gh.Add(rng.LogUniform(0.3, 3e3))
	}
	b.ss = &stats.StreamStats{}
	for i := 0; i < 12; i++ {
		b.ss.Add(rng.Norm()*5 + 3)
	}
	b.marks = graphalg.NewNodeMarks()
	for i := 0; i < 40; i++ {
		b.marks.Mark(rng.Intn(1200))
	}
	b.lin = &scale.Linear{Min: rng.Uniform(-10, 0), Max: rng.Uniform(1, 100), Base: rng.PickI(0, 2, 10)}
	llo, lhi := rng.LogUniform(1e-3, 1), rng.LogUniform(10, 1e6)
	// orientation and sign of the shared scales vary: reversed axes, a
	// negative Log domain
	switch rng.Intn(4) {
	case 1:
		b.lin.Min, b.lin.Max = b.lin.Max, b.lin.Min
	case 2:
		llo, lhi = lhi, llo
	case 3:
		b.lin.Min, b.lin.Max = b.lin.Max, b.lin.Min
		llo, lhi = -lhi, -llo
	}
	l, _ := scale.NewLog(llo, lhi, 10)
	b.lg = &l
	// graph: random multigraph, unsorted adjacency with duplicates; node 0 reaches most nodes
	gn := rng.Range(5, 25)
	if big {
		gn = rng.Range(1030, 1300)
	}
	if huge {
		gn = size(1300, 8192, b.top2)
	}
	g := make([][]int, gn)
	for i := 0; i < gn; i++ {
		deg := rng.Intn(5)
		var out []int
		for k := 0; k < deg; k++ {
			out = append(out, rng.Intn(gn))
		}
		if i+1 < gn && rng.Intn(4) != 0 {
			out = append(out, i+1)
		}
		if len(out) > 1 && sort.IntsAreSorted(out) {
			out[0], out[len(out)-1] = out[len(out)-1], out[0]
		}
		g[i] = b.carveI("g", rng, out)
	}
	b.g = graph.IntGraph(g)
	g2 := make([][]int, gn)
	for i := range g2 {
		o := append([]int(nil), g[i]...)
		rng.ShuffleI(o)
		g2[i] = b.carveI("g2", rng, o)
	}
	b.g2 = graph.IntGraph(g2)
	ww := make([][]float64, gn)
	for i := range ww {
		ww[i] = make([]float64, len(g[i]))
		for k := range ww[i] {
			ww[i][k] = float64(1+rng.Intn(8)) / 4
		}
	}
	b.wg = &c20Weighted{b.g, ww}
	b.bi = graph.MakeBiGraph(b.g)
	b.root = 0
	// b.bi itself stays untouched until an inventory entry uses it (first use
	// may happen concurrently); the idom argument comes from another instance
	b.idom = b.carveI("idom", rng, graphalg.IDom(graph.MakeBiGraph(b.g), b.root))
	perm := rng.Perm(gn)
	keep := map[int]bool{}
	var kn []int
	for _, v := range perm[:gn/2+1] {
		kn = append(kn, v)
		keep[v] = true
	}
	b.keepNodes = b.carveI("keepNodes", rng, kn)
	for _, v := range kn {
		for e, to := range g[v] {
			if keep[to] && rng.Intn(3) != 0 {
				b.keepEdges = append(b.keepEdges, graph.Edge{Node: v, Edge: e})
			}
		}
	}
	for i, j := range rng.Perm(len(b.keepEdges)) {
		b.keepEdges[i], b.keepEdges[j] = b.keepEdges[j], b.keepEdges[i]
	}
	b.keepEdges = b.carveE(rng, b.keepEdges)
	b.rmNodes = b.carveI("rmNodes", rng, perm[gn/2+1:][:min(2, gn-gn/2-1)])
	for v := 0; v < gn; v++ {
		for e := range g[v] {
			if rng.Intn(5) == 0 {
				b.rmEdges = append(b.rmEdges, graph.Edge{Node: v, Edge: e})
			}
		}
	}
	for i, j := range rng.Perm(len(b.rmEdges)) {
		b.rmEdges[i], b.rmEdges[j] = b.rmEdges[j], b.rmEdges[i]
	}
	b.rmEdges = b.carveE(rng, b.rmEdges)
	for i := 0; i < gn; i++ {
		// two table entries per node; a callback returns the first as a
		// one-element slice whose capacity reaches over the rest of the table
		first := graphout.DotAttr{Name: "color", Val: fmt.Sprintf("c%d", i)}
		if i%3 == 0 {
			first = graphout.DotAttr{Name: "label", Val: fmt.Sprintf("L%d", i)}
		}
		b.attrTab = append(b.attrTab, first, graphout.DotAttr{Name: "canary", Val: i})
	}
	for i := 0; i < gn; i++ {
		b.labels = append(b.labels, fmt.Sprintf("n%d \"q\" \\ {x|y} <%d>\nz", i, rng.Intn(9)))
	}
	T, a := randomTieAlloc(rng, 1+rng.Intn(5))
	n1 := sumInts(a)
	if n1 < 1 || sumInts(T)-n1 < 1 || sumInts(T) > 24 {
		T, n1 = []int{2, 1, 3, 1}, 3
	}
	b.ud = stats.UDist{N1: n1, N2: sumInts(T) - n1, T: b.carveI("UDist.T", rng, T)}
	b.n = rng.Range(5, 45)
	b.q = rng.Pick(0.1, 0.25, 0.5, 0.9)
	b.c = rng.Pick(0.5, 0.9, 0.95)
	b.y = rng.Uniform(0.05, 0.95)
	b.x = rng.Uniform(-3, 3)
	b.rseed = int64(rng.Uint64() >> 1)
	b.invT = stats.InvCDF(stats.TDist{V: 4})
	b.invB = stats.InvCDF(stats.BinomialDist{N: b.n, P: b.q})
	b.invK = stats.InvCDF(b.kde)
	b.genT = stats.Rand(stats.TDist{V: 6})
	b.loess = fit.LOESS(b.grid[:5], b.ys[:5], 1, 0.9)
	b.pr = fit.PolynomialRegression(b.grid, b.ys[:len(b.grid)], nil, 2)
	b.vsqrt = vec.Vectorize(math.Sqrt)
	lx := append([]float64(nil), b.xs...)
	sort.Float64s(lx)
	for i := 1; i < len(lx); i++ { // strictly increasing abscissae
		if lx[i] <= lx[i-1] {
			lx[i] = lx[i-1] + 0.125
		}
	}
	b.lx = b.carveF("sorted xs (LOESS)", rng, lx)
	b.loessN = fit.LOESS(b.lx, b.ys, rng.Intn(3), rng.Uniform(0.3, 0.75))
	b.rDom = graphalg.Dom(b.idom)
	b.rSub = []graph.Subgraph{graph.SubgraphKeep(b.g, b.keepNodes, b.keepEdges), graph.SubgraphRemove(b.g, b.rmNodes, b.rmEdges)}
	b.rSCC = graphalg.SCC(b.g, graphalg.SCCEdges)
	b.rSimp = graphalg.SimplifyMulti(b.g)
	// the library calls made while the bundle was built (fits, closures,
	// dominators, subgraphs) must have left every carved array as it was
	for i, back := range b.fbacks {
		if mon.NewHasher().Fs(back).Sum() != b.carvedHash[b.names[i]] {
			b.damage = append(b.damage, b.names[i])
		}
	}
	for i, back := range b.ibacks {
		if mon.NewHasher().Is(back).Sum() != b.carvedI[i] {
			b.damage = append(b.damage, "an int slice (graph adjacency list, idom, node list or UDist.T)")
			break
		}
	}
	for i, back := range b.ebacks {
		if hashEdges(back) != b.carvedE[i] {
			b.damage = append(b.damage, "an edge list (SubgraphKeep/Remove argument)")
			break
		}
	}
	b.levels = b.carveF("levels", rng, []float64{0.03, 0.2, 0.41, 0.5, 0.77, 0.9, 0.99, b.y})
	// the LOESS abscissae once more in shuffled order (distinct, unsorted:
	// LOESS has to order its private copy, whatever the size)
	lxu := append([]float64(nil), lx...)
	rng.ShuffleF(lxu)
	if sort.Float64sAreSorted(lxu) {
		lxu[0], lxu[len(lxu)-1] = lxu[len(lxu)-1], lxu[0]
	}
	b.lxu = b.carveF("shuffled xs (LOESS)", rng, lxu)
	return b
}

// c20Size draws an input size from [lo, hi]: log-uniform in one half of the
// draws, at / just beyond a round number of that range (a power of two, or
// 1, 2, 5 times a power of ten; offset -1 .. +2) in the other half.
func c20Size(rng *mon.Rand, lo, hi int) int {
	var round []int
	for p := 1; p <= hi; p *= 2 {
		if p >= lo {
			round = append(round, p)
		}
	}
	for d := 1; d <= hi; d *= 10 {
		for _, m := range []int{1, 2, 5} {
			if v := m * d; v >= lo && v <= hi {
				round = append(round, v)
			}
		}
	}
	n := int(rng.LogUniform(float64(lo), float64(hi)))
	if rng.Intn(2) == 0 && len(round) > 0 {
		n = round[rng.Intn(len(round))] + rng.PickI(0, 0, 1, 1, 2, -1)
	}
	if n < lo {
		n = lo
	}
	if n > hi {
		n = hi
	}
	return n
}

// hitSizes records the size classes of a large-input bundle (decided from the
// inputs alone).
func (b *bundle) hitSizes(w *mon.W) {
	if !b.huge {
		return
	}
	w.Hit("large-input-bundle")
	q := len(b.lx) / 2 // window of the LOESS fit on shuffled abscissae (span 0.5)
	w.HitIf(len(b.xs) >= 10000, "large:slices>=10^4")
	w.HitIf(len(b.xs) >= 65536, "large:slices>=2^16")
	w.HitIf(len(b.su.Xs) >= 5000, "large:Samples>=5000")
	w.HitIf(len(b.su.Xs) >= 16384, "large:Samples>=2^14")
	w.HitIf(len(b.kde.Sample.Xs) >= 4096, "large:KDE>=2^12")
	w.HitIf(q >= 300, "large:LOESS-window>=300")
	w.HitIf(q >= 5000, "large:LOESS-window>=5000")
	w.HitIf(len(b.x1) >= 4096 && len(b.x2) >= 4096, "large:U-test-samples>=2^12")
	w.HitIf(b.g.NumNodes() >= 4096, "large:graph>=2^12")
	for _, n := range []int{len(b.xs), len(b.su.Xs), len(b.kde.Sample.Xs), len(b.x1), len(b.x2), len(b.p1), b.g.NumNodes()} {
		for _, d := range []int{0, 1, 2} {
			m := n - d
			if m > 0 && (m&(m-1) == 0 || c20Is125(m)) {
				w.Hit("large:size-at/just-beyond-a-round-number")
			}
		}
	}
}

func c20Is125(m int) bool {
	for m%10 == 0 {
		m /= 10
	}
	return m == 1 || m == 2 || m == 5
}

// refill overwrites the data of every float input array in place with other
// numbers (x -> 0.75x+1, or its inverse: order, strict monotonicity and
// positivity are kept; the probability levels stay as they are) and moves
// the KDE boundaries along.
func (b *bundle) refill(forward bool) {
	f := func(x float64) float64 { return 0.75*x + 1 }
	if !forward {
		f = func(x float64) float64 { return (x - 1) / 0.75 } // back to (about) the earlier numbers
	}
	for i, back := range b.fbacks {
		if b.names[i] == "levels" {
			continue
		}
		r := b.fregs[i]
		for k := r[0]; k < r[0]+r[1]; k++ {
			back[k] = f(back[k])
		}
	}
	b.kdeB.BoundaryMin = f(b.kdeB.BoundaryMin)
	b.kdeB.BoundaryMax = f(b.kdeB.BoundaryMax)
}

// entry is one inventory item: a call of one exported function or method on
// the bundle's shared inputs, returning the canonical encoding of its result.
type entry struct {
	name   string
	covers []string // exported identifiers exercised, "pkg.Func" / "pkg.Type.Method"
	pkg    string
	call   func(b *bundle, e *enc)
}

func termsFor() []func(xs, out []float64) {
	return []func(xs, out []float64){
		func(xs, out []float64) {
			for i := range out {
				out[i] = 1
			}
		},
		func(xs, out []float64) { copy(out, xs) },
		func(xs, out []float64) {
			for i, x := range xs {
				out[i] = math.Sin(x)
			}
		},
	}
}

func encT(e *enc, r *stats.TTestResult, err error) {
	e.Err(err)
	if r != nil {
		e.I(r.N1)
		e.I(r.N2)
		e.F(r.T)
		e.F(r.DoF)
		e.F(r.P)
	}
}

var c20Inventory = []entry{
	// ---- stats: slices and Samples
	{"stats.Bounds", []string{"stats.Bounds"}, "stats", func(b *bundle, e *enc) { lo, hi := stats.Bounds(b.xs); e.F(lo); e.F(hi) }},
	{"stats.Mean", []string{"stats.Mean"}, "stats", func(b *bundle, e *enc) { e.F(stats.Mean(b.xs)) }},
	{"stats.MeanCI", []string{"stats.MeanCI"}, "stats", func(b *bundle, e *enc) { m, l, h := stats.MeanCI(b.xs, b.c); e.F(m); e.F(l); e.F(h) }},
	{"stats.GeoMean", []string{"stats.GeoMean"}, "stats", func(b *bundle, e *enc) { e.F(stats.GeoMean(b.xpos)) }},
	{"stats.Variance", []string{"stats.Variance"}, "stats", func(b *bundle, e *enc) { e.F(stats.Variance(b.xs)) }},
	{"stats.StdDev", []string{"stats.StdDev"}, "stats", func(b *bundle, e *enc) { e.F(stats.StdDev(b.xs)) }},
	{"Sample(weighted) queries", []string{"stats.Sample.Bounds", "stats.Sample.Sum", "stats.Sample.Weight", "stats.Sample.Mean", "stats.Sample.GeoMean", "stats.Sample.Quantile", "stats.Sample.IQR"}, "stats",
		func(b *bundle, e *enc) {
			s := b.sw
			lo, hi := s.Bounds()
			e.F(lo)
			e.F(hi)
			e.F(s.Sum())
			e.F(s.Weight())
			e.F(s.Mean())
			e.F(s.GeoMean())
			e.F(s.Quantile(b.q))
			e.F(s.Quantile(0))
			e.F(s.Quantile(1))
			e.F(s.IQR())
		}},
	{"Sample(unweighted) queries", []string{"stats.Sample.Bounds", "stats.Sample.Sum", "stats.Sample.Weight", "stats.Sample.Mean", "stats.Sample.MeanCI", "stats.Sample.Variance", "stats.Sample.StdDev", "stats.Sample.Quantile", "stats.Sample.IQR"}, "stats",
		func(b *bundle, e *enc) {
			s := b.su
			lo, hi := s.Bounds()
			e.F(lo)
			e.F(hi)
			e.F(s.Sum())
			e.F(s.Weight())
			e.F(s.Mean())
			m, l, h := s.MeanCI(b.c)
			e.F(m)
			e.F(l)
			e.F(h)
			e.F(s.Variance())
			e.F(s.StdDev())
			e.F(s.Quantile(b.q))
			e.F(s.IQR())
		}},
	{"Sample.Copy", []string{"stats.Sample.Copy"}, "stats", func(b *bundle, e *enc) {
		c := b.sw.Copy()
		e.Fs(c.Xs)
		e.Fs(c.Weights)
		e.B(c.Sorted)
		c.Xs[0], c.Weights[0] = -777, 777 // writing through the copy must not reach the original
		c.Sort()
	}},
	{"MannWhitneyUTest", []string{"stats.MannWhitneyUTest"}, "stats", func(b *bundle, e *enc) {
		e.each(len(alts), 5, func(i int) []float64 {
			r, err := stats.MannWhitneyUTest(b.x1, b.x2, alts[i])
			if err != nil || r == nil {
				return []float64{-1, 0, 0, 0, 0}
			}
			return []float64{0, float64(r.N1), float64(r.N2), r.U, r.P}
		})
	}},
	{"TwoSampleTTest", []string{"stats.TwoSampleTTest"}, "stats", func(b *bundle, e *enc) {
		r, err := stats.TwoSampleTTest(stats.Sample{Xs: b.x1}, stats.Sample{Xs: b.x2}, stats.LocationDiffers)
		encT(e, r, err)
	}},
	{"TwoSampleWelchTTest", []string{"stats.TwoSampleWelchTTest"}, "stats", func(b *bundle, e *enc) {
		r, err := stats.TwoSampleWelchTTest(stats.Sample{Xs: b.x1}, stats.Sample{Xs: b.x2}, stats.LocationLess)
		encT(e, r, err)
	}},
	{"PairedTTest", []string{"stats.PairedTTest"}, "stats", func(b *bundle, e *enc) {
		r, err := stats.PairedTTest(b.p1, b.p2, 0.25, stats.LocationGreater)
		encT(e, r, err)
	}},
	{"OneSampleTTest", []string{"stats.OneSampleTTest"}, "stats", func(b *bundle, e *enc) {
		r, err := stats.OneSampleTTest(b.su, 1, stats.LocationDiffers)
		encT(e, r, err)
	}},
	{"QuantileCI+SampleCI", []string{"stats.QuantileCI", "stats.QuantileCIResult.SampleCI"}, "stats", func(b *bundle, e *enc) {
		for _, n := range []int{len(b.su.Xs), b.n, 40} {
			ci := stats.QuantileCI(n, b.q, b.c)
			e.I(ci.N)
			e.I(ci.LoOrder)
			e.I(ci.HiOrder)
			e.F(ci.Confidence)
			e.B(ci.Ambiguous)
			if n == len(b.su.Xs) {
				q, l, h := ci.SampleCI(b.su)
				e.F(q)
				e.F(l)
				e.F(h)
			}
		}
	}},
	{"InvCDF(generic)", []string{"stats.InvCDF"}, "stats", func(b *bundle, e *enc) {
		e.F(stats.InvCDF(stats.TDist{V: 5})(b.y))
		e.F(stats.InvCDF(stats.BinomialDist{N: b.n, P: b.q})(b.y))
		e.F(stats.InvCDF(b.ud)(b.y))
		e.F(stats.InvCDF(b.kde)(b.y))
		e.F(stats.InvCDF(stats.NormalDist{Mu: 1, Sigma: 2})(b.y))
	}},
	{"shared InvCDF/Rand closures", []string{"stats.InvCDF", "stats.Rand"}, "stats", func(b *bundle, e *enc) {
		// one returned function evaluated by many callers at different levels
		e.each(len(b.levels), 3, func(i int) []float64 { return []float64{b.invT(b.levels[i]), b.invB(b.levels[i]), b.invK(b.levels[i])} })
		r := rand.New(rand.NewSource(b.rseed + 1))
		e.F(b.genT(r))
		e.F(b.genT(r))
	}},
	{"shared fit results and closures", []string{"fit.LOESS", "fit.PolynomialRegression", "vec.Vectorize"}, "fit", func(b *bundle, e *enc) {
		// results obtained when the bundle was built, used now: after any
		// number of other fits, and by many callers at once
		qs := []float64{-2.5, -1, 0.25, 1, 2.5, 6}
		e.each(len(qs), 2, func(i int) []float64 { return []float64{b.loess(qs[i]), b.pr.F(qs[i])} })
		e.Fs(b.pr.Coefficients)
		e.Fs(b.vsqrt(b.xpos))
	}},
	{"Rand(generic)", []string{"stats.Rand", "stats.NormalDist.Rand"}, "stats", func(b *bundle, e *enc) {
		r := rand.New(rand.NewSource(b.rseed))
		e.F(stats.Rand(stats.TDist{V: 3})(r))
		e.F(stats.Rand(b.ud)(r))
		e.F(stats.Rand(b.kde)(r))
		e.F(stats.Rand(stats.NormalDist{Mu: 1, Sigma: 2})(r))
		e.F(stats.NormalDist{Mu: 1, Sigma: 2}.Rand(r))
	}},
	{"NormalDist methods", []string{"stats.NormalDist.PDF", "stats.NormalDist.CDF", "stats.NormalDist.InvCDF", "stats.NormalDist.Bounds", "stats.NormalDist.Mean", "stats.NormalDist.Variance"}, "stats", func(b *bundle, e *enc) {
		d := stats.NormalDist{Mu: b.x, Sigma: 1.5}
		e.F(d.PDF(b.x + 1))
		e.F(d.CDF(b.x - 1))
		e.F(d.InvCDF(b.y))
		l, h := d.Bounds()
		e.F(l)
		e.F(h)
		e.F(d.Mean())
		e.F(d.Variance())
	}},
	{"TDist/DeltaDist methods", []string{"stats.TDist.PDF", "stats.TDist.CDF", "stats.TDist.Bounds", "stats.DeltaDist.PDF", "stats.DeltaDist.CDF", "stats.DeltaDist.InvCDF", "stats.DeltaDist.Bounds"}, "stats", func(b *bundle, e *enc) {
		t := stats.TDist{V: float64(b.n)}
		e.F(t.PDF(b.x))
		e.F(t.CDF(b.x))
		l, h := t.Bounds()
		e.F(l)
		e.F(h)
		d := stats.DeltaDist{T: b.x}
		e.F(d.PDF(b.x))
		e.F(d.CDF(b.x))
		e.F(d.InvCDF(b.y))
		l, h = d.Bounds()
		e.F(l)
		e.F(h)
	}},
	{"Binomial/Hypergeometric methods", []string{"stats.BinomialDist.PMF", "stats.BinomialDist.CDF", "stats.BinomialDist.Bounds", "stats.BinomialDist.Step", "stats.BinomialDist.Mean", "stats.BinomialDist.Variance", "stats.BinomialDist.NormalApprox",
		"stats.HypergeometicDist.PMF", "stats.HypergeometicDist.CDF", "stats.HypergeometicDist.Bounds", "stats.HypergeometicDist.Step", "stats.HypergeometicDist.Mean", "stats.HypergeometicDist.Variance"}, "stats", func(b *bundle, e *enc) {
		d := stats.BinomialDist{N: b.n, P: b.q}
		e.each(b.n+3, 2, func(i int) []float64 {
			k := float64(i - 1)
			return []float64{d.PMF(k), d.CDF(k + 0.5)}
		})
		l, h := d.Bounds()
		e.F(l)
		e.F(h)
		e.F(d.Step())
		e.F(d.Mean())
		e.F(d.Variance())
		na := d.NormalApprox()
		e.F(na.Mu)
		e.F(na.Sigma)
		hg := stats.HypergeometicDist{N: b.n + 10, K: b.n / 2, Draws: b.n/3 + 3}
		e.each(b.n+2, 2, func(i int) []float64 {
			k := float64(i - 1)
			return []float64{hg.PMF(k), hg.CDF(k)}
		})
		l, h = hg.Bounds()
		e.F(l)
		e.F(h)
		e.F(hg.Step())
		e.F(hg.Mean())
		e.F(hg.Variance())
	}},
	{"UDist methods", []string{"stats.UDist.PMF", "stats.UDist.CDF", "stats.UDist.Bounds", "stats.UDist.Step"}, "stats", func(b *bundle, e *enc) {
		e.each(2*b.ud.N1*b.ud.N2+1, 2, func(i int) []float64 {
			u := float64(i) / 2
			return []float64{b.ud.PMF(u), b.ud.CDF(u)}
		})
		// the mirror distribution (N2,N1,T): a cache keyed on a canonical
		// (smaller size first) form would make results depend on which of
		// the two was evaluated first
		mir := stats.UDist{N1: b.ud.N2, N2: b.ud.N1, T: b.ud.T}
		e.each(2*b.ud.N1*b.ud.N2+1, 2, func(i int) []float64 {
			u := float64(i) / 2
			return []float64{mir.PMF(u), mir.CDF(u)}
		})
		un := stats.UDist{N1: 6, N2: 7}
		e.each(43, 2, func(i int) []float64 { return []float64{un.PMF(float64(i)), un.CDF(float64(i))} })
		l, h := b.ud.Bounds()
		e.F(l)
		e.F(h)
		e.F(b.ud.Step())
	}},
	{"KDE methods", []string{"stats.KDE.PDF", "stats.KDE.CDF", "stats.KDE.Bounds"}, "stats", func(b *bundle, e *enc) {
		for _, k := range []*stats.KDE{b.kde, b.kdeB} {
			k := k
			e.each(len(b.grid), 2, func(i int) []float64 { return []float64{k.PDF(b.grid[i]), k.CDF(b.grid[i])} })
			l, h := k.Bounds()
			e.F(l)
			e.F(h)
		}
	}},
	{"results returned earlier, queried now (DomTree, Subgraph, SCCGraph, simplified graph, LOESS on all points)", []string{"graphalg.DomTree.Out", "graphalg.DomTree.IDom", "graphalg.SCCGraph.Out", "graphalg.SCCGraph.Subnodes", "fit.LOESS"}, "graphalg", func(b *bundle, e *enc) {
		n := b.rDom.NumNodes()
		for _, i := range e.seq(n) {
			_ = b.rDom.Out(i)
		}
		for i := 0; i < n; i++ {
			e.Is(b.rDom.Out(i))
			e.Is(b.rDom.In(i))
			e.I(b.rDom.IDom(i))
		}
		for _, s := range b.rSub {
			e.G(s)
			nm := s.NodeMap(func(n int) interface{} { return n })
			for i := 0; i < s.NumNodes(); i++ {
				e.I(nm(i).(int))
			}
		}
		e.G(b.rSCC)
		for c := 0; c < b.rSCC.NumNodes(); c++ {
			e.Is(b.rSCC.Subnodes(c))
		}
		for v := 0; v < b.g.NumNodes(); v++ {
			e.I(b.rSCC.SubnodeComponent(v))
		}
		e.G(b.rSimp)
		for i := 0; i < b.rSimp.NumNodes(); i++ {
			for k := range b.rSimp.Out(i) {
				e.F(b.rSimp.OutWeight(i, k))
			}
		}
		lo, hi := b.lx[0], b.lx[len(b.lx)-1]
		e.each(12, 1, func(i int) []float64 { return []float64{b.loessN(lo + (hi-lo)*float64(i)/11)} })
	}},
	{"weighted Sample with zero weights", []string{"stats.Sample.Quantile", "stats.Sample.Bounds", "stats.Sample.Mean"}, "stats", func(b *bundle, e *enc) {
		s := b.swz
		e.each(len(b.levels), 1, func(i int) []float64 { return []float64{s.Quantile(b.levels[i])} })
		l, h := s.Bounds()
		e.F(l)
		e.F(h)
		e.F(s.Mean())
		e.F(s.Weight())
		e.F(s.Sum())
		e.F(s.IQR())
		c := s.Copy()
		e.Fs(c.Xs)
		e.Fs(c.Weights)
	}},
	{"KDE with Bandwidth 0 (private struct copies of one shared Sample)", []string{"stats.KDE.PDF", "stats.KDE.CDF", "stats.KDE.Bounds"}, "stats", func(b *bundle, e *enc) {
		e.each(4, 3, func(i int) []float64 {
			k := *b.kde0 // the struct is the caller's own; Xs and Weights are shared
			// only Bandwidth is documented as written lazily: every other
			// field of the caller's struct must come back as it went in
			defer func() {
				t := b.kde0
				if len(k.Sample.Xs) != len(t.Sample.Xs) || cap(k.Sample.Xs) != cap(t.Sample.Xs) || (len(k.Sample.Xs) > 0 && &k.Sample.Xs[0] != &t.Sample.Xs[0]) ||
					len(k.Sample.Weights) != len(t.Sample.Weights) || k.Sample.Sorted != t.Sample.Sorted || k.Kernel != t.Kernel ||
					k.BoundaryMethod != t.BoundaryMethod || k.BoundaryMin != t.BoundaryMin || k.BoundaryMax != t.BoundaryMax {
					panic("a call on a KDE with Bandwidth 0 changed a field of the caller's struct other than Bandwidth (Sample, Sorted flag, Kernel or boundaries)")
				}
			}()
			switch i {
			case 0:
				return []float64{k.PDF(b.x), k.Bandwidth, 0}
			case 1:
				return []float64{k.CDF(b.x), k.Bandwidth, 0}
			case 2:
				l, h := k.Bounds()
				return []float64{l, h, k.Bandwidth}
			}
			return []float64{stats.InvCDF(&k)(b.y), stats.Rand(&k)(rand.New(rand.NewSource(b.rseed))), k.Bandwidth}
		})
	}},
	{"Bandwidth rules", []string{"stats.BandwidthScott", "stats.BandwidthSilverman"}, "stats", func(b *bundle, e *enc) {
		e.F(stats.BandwidthScott(b.su))
		e.F(stats.BandwidthSilverman(b.su))
	}},
	{"Histogram queries", []string{"stats.HistogramQuantile", "stats.HistogramIQR", "stats.LinearHist.Counts", "stats.LinearHist.BinToValue", "stats.LogHist.Counts", "stats.LogHist.BinToValue", "stats.LogHist.At", "stats.LogHist.Bounds"}, "stats", func(b *bundle, e *enc) {
		for _, h := range []stats.Histogram{b.lh, b.gh} {
			for _, q := range []float64{0.1, 0.25, 0.5, 0.75, 0.95} {
				e.F(stats.HistogramQuantile(h, q))
			}
			e.F(stats.HistogramIQR(h))
			u, cs, o := h.Counts()
			e.I(int(u))
			e.I(int(o))
			for _, c := range cs {
				e.I(int(c))
			}
			e.F(h.BinToValue(1.5))
		}
		e.F(b.gh.At(7))
		l, h := b.gh.Bounds()
		e.F(l)
		e.F(h)
	}},
	{"StreamStats queries + Combine argument", []string{"stats.StreamStats.Weight", "stats.StreamStats.Mean", "stats.StreamStats.Variance", "stats.StreamStats.StdDev", "stats.StreamStats.RMS", "stats.StreamStats.String"}, "stats", func(b *bundle, e *enc) {
		s := b.ss
		e.F(s.Weight())
		e.F(s.Mean())
		e.F(s.Variance())
		e.F(s.StdDev())
		e.F(s.RMS())
		e.S(s.String())
		var acc stats.StreamStats // private receiver; the shared argument must stay untouched
		acc.Add(1)
		acc.Combine(s)
		e.F(acc.Mean())
		e.F(acc.Variance())
	}},
	{"String methods", []string{"stats.LocationHypothesis.String", "stats.KDEKernel.String", "stats.KDEBoundaryMethod.String", "scale.RangeErr.Error"}, "stats", func(b *bundle, e *enc) {
		e.S(stats.LocationLess.String())
		e.S(stats.GaussianKernel.String())
		e.S(stats.BoundaryReflect.String())
		e.S(scale.RangeErr("x").Error())
	}},
	// ---- mathx
	{"mathx", []string{"mathx.Beta", "mathx.BetaInc", "mathx.GammaInc", "mathx.GammaIncComp", "mathx.Choose", "mathx.Lchoose", "mathx.Sign"}, "mathx", func(b *bundle, e *enc) {
		e.F(mathx.Beta(2.5, b.q+1))
		e.F(mathx.BetaInc(b.y, 2.5, 7))
		e.F(mathx.GammaInc(3.5, 10*b.y))
		e.F(mathx.GammaIncComp(3.5, 10*b.y))
		e.each(b.n+1, 3, func(k int) []float64 {
			return []float64{mathx.Choose(b.n, k), mathx.Lchoose(b.n+30, k), mathx.Choose(b.n+30, k)}
		})
		// mirrored argument pairs of the symmetric functions
		e.each(2, 1, func(i int) []float64 {
			if i == 0 {
				return []float64{mathx.BetaInc(b.y, 2.5, 7)}
			}
			return []float64{mathx.BetaInc(1-b.y, 7, 2.5)}
		})
		e.F(mathx.Sign(b.x))
	}},
	// ---- vec
	{"vec", []string{"vec.Sum", "vec.Linspace", "vec.Logspace", "vec.Map", "vec.Vectorize", "vec.Concat"}, "vec", func(b *bundle, e *enc) {
		e.F(vec.Sum(b.xs))
		e.Fs(vec.Linspace(b.x, b.x+7, b.n))
		e.Fs(vec.Logspace(-2, 3, 9, 10))
		m := vec.Map(math.Abs, b.xs)
		e.Fs(m)
		m[0] = -1
		v := vec.Vectorize(math.Sqrt)(b.xpos)
		e.Fs(v)
		v[0] = -1
		c := vec.Concat(b.xs, b.ys, nil, b.ws)
		e.Fs(c)
		c[0] = -1
	}},
	{"reductions called several times in a row", []string{"vec.Sum", "stats.Sample.Sum", "stats.Sample.Weight", "stats.Mean"}, "vec", func(b *bundle, e *enc) {
		// the same reduction of the same slice, again and again: every value of
		// the series must come back with the same bits in every later series
		e.each(6, 5, func(i int) []float64 {
			return []float64{vec.Sum(b.xs), b.su.Sum(), b.sw.Weight(), b.sw.Sum(), stats.Mean(b.xs)}
		})
	}},
	// ---- fit
	{"fit.LOESS on shuffled abscissae", []string{"fit.LOESS"}, "fit", func(b *bundle, e *enc) {
		// all points of the bundle, distinct abscissae in random order: LOESS
		// has to order a private copy of both slices
		f := fit.LOESS(b.lxu, b.ys, 1, 0.5)
		lo, hi := b.lx[0], b.lx[len(b.lx)-1]
		e.each(3, 1, func(i int) []float64 { return []float64{f(lo + (hi-lo)*(float64(i)+0.5)/3)} })
	}},
	{"fit.LinearLeastSquares", []string{"fit.LinearLeastSquares"}, "fit", func(b *bundle, e *enc) {
		e.Fs(fit.LinearLeastSquares(b.xs, b.ys, b.ws, termsFor()...))
		e.Fs(fit.LinearLeastSquares(b.xs, b.ys, nil, termsFor()[:2]...))
	}},
	{"fit.PolynomialRegression", []string{"fit.PolynomialRegression", "fit.PolynomialRegressionResult.String"}, "fit", func(b *bundle, e *enc) {
		r := fit.PolynomialRegression(b.grid, b.grid[:len(b.grid)], b.ws[:len(b.grid)], 2)
		e.Fs(r.Coefficients)
		e.F(r.F(b.x))
		e.S(r.String())
	}},
	{"fit.LOESS", []string{"fit.LOESS"}, "fit", func(b *bundle, e *enc) {
		// distinct, unsorted x (ties in x make the local problem singular)
		fs := fit.LOESS(b.lx, b.ys, 1, 0.6) // ascending abscissae: no private copy is needed
		e.F(fs(b.lx[len(b.lx)/2] + 0.0625))
		e.F(fs(b.lx[0]))
		f := fit.LOESS(b.grid[:5], b.ys[:5], 1, 0.9)
		for _, x := range []float64{-2, 0, 1, 3} {
			e.F(f(x))
		}
	}},
	// ---- scale
	{"scale.Linear", []string{"scale.Linear.Map", "scale.Linear.Unmap", "scale.Linear.Ticks", "scale.Linear.CountTicks", "scale.Linear.TicksAtLevel", "scale.TickOptions.FindLevel"}, "scale", func(b *bundle, e *enc) {
		s := b.lin
		e.F(s.Map(b.x))
		e.F(s.Unmap(b.y))
		o := scale.TickOptions{Max: 7}
		ma, mi := s.Ticks(o)
		e.Fs(ma)
		e.Fs(mi)
		// the tick levels of a reversed domain are not defined: the Ticker
		// methods are called on a private ascending copy
		t := *s
		if t.Min > t.Max {
			t.Min, t.Max = t.Max, t.Min
		}
		e.I(t.CountTicks(1))
		e.Fs(t.TicksAtLevel(1).([]float64))
		l, ok := o.FindLevel(&t, 0)
		e.I(l)
		e.B(ok)
	}},
	{"scale.Log+QQ", []string{"scale.Log.Map", "scale.Log.Unmap", "scale.Log.Ticks", "scale.Log.CountTicks", "scale.Log.TicksAtLevel", "scale.QQ.Map", "scale.QQ.Unmap", "scale.NewLog"}, "scale", func(b *bundle, e *enc) {
		s := b.lg
		e.F(s.Map(3.5))
		e.F(s.Unmap(b.y))
		o := scale.TickOptions{Max: 5}
		ma, mi := s.Ticks(o)
		e.Fs(ma)
		e.Fs(mi)
		e.I(s.CountTicks(0))
		e.Fs(s.TicksAtLevel(0).([]float64))
		q := scale.QQ{Src: b.lin, Dest: b.lg}
		e.F(q.Map(b.x))
		e.F(q.Unmap(3.5))
		_, err := scale.NewLog(-1, 1, 10)
		e.Err(err)
	}},
	// ---- graph
	{"graph.Equal", []string{"graph.Equal"}, "graph", func(b *bundle, e *enc) { e.B(graph.Equal(b.g, b.g2)); e.B(graph.Equal(b.g2, b.g)) }},
	{"graph.MakeBiGraph", []string{"graph.MakeBiGraph"}, "graph", func(b *bundle, e *enc) {
		bg := graph.MakeBiGraph(b.g)
		for i := 0; i < bg.NumNodes(); i++ {
			e.Is(bg.In(i))
		}
		for i := 0; i < b.bi.NumNodes(); i++ {
			e.Is(b.bi.In(i))
		}
	}},
	{"graph.SubgraphKeep/Remove", []string{"graph.SubgraphKeep", "graph.SubgraphRemove"}, "graph", func(b *bundle, e *enc) {
		for _, s := range []graph.Subgraph{graph.SubgraphKeep(b.g, b.keepNodes, b.keepEdges), graph.SubgraphRemove(b.g, b.rmNodes, b.rmEdges)} {
			e.G(s)
			nm := s.NodeMap(func(n int) interface{} { return n })
			em := s.EdgeMap(func(n, ed int) interface{} { return n*1000 + ed })
			for i := 0; i < s.NumNodes(); i++ {
				e.I(nm(i).(int))
				for k := range s.Out(i) {
					e.I(em(i, k).(int))
				}
			}
		}
	}},
	// ---- graphalg
	{"graphalg.PreOrder/PostOrder/Euler", []string{"graphalg.PreOrder", "graphalg.PostOrder", "graphalg.Euler.Visit"}, "graphalg", func(b *bundle, e *enc) {
		e.Is(graphalg.PreOrder(b.g, b.root))
		e.Is(graphalg.PostOrder(b.g, b.root))
		var tr []int
		graphalg.Euler{Enter: func(n int) { tr = append(tr, n) }, Exit: func(n int) { tr = append(tr, -n-1) }}.Visit(b.g, b.root)
		e.Is(tr)
	}},
	{"graphalg.SCC", []string{"graphalg.SCC", "graphalg.SCCGraph.Subnodes", "graphalg.SCCGraph.SubnodeComponent", "graphalg.SCCGraph.NumNodes", "graphalg.SCCGraph.Out"}, "graphalg", func(b *bundle, e *enc) {
		s := graphalg.SCC(b.g, graphalg.SCCEdges)
		e.I(s.NumNodes())
		for c := 0; c < s.NumNodes(); c++ {
			e.Is(s.Subnodes(c))
			e.Is(s.Out(c))
		}
		for n := 0; n < b.g.NumNodes(); n++ {
			e.I(s.SubnodeComponent(n))
		}
		s0 := graphalg.SCC(b.g, 0)
		e.I(s0.NumNodes())
	}},
	{"graphalg.SimplifyMulti", []string{"graphalg.SimplifyMulti"}, "graphalg", func(b *bundle, e *enc) {
		for _, g := range []graph.Graph{b.g, b.wg} {
			s := graphalg.SimplifyMulti(g)
			e.G(s)
			for i := 0; i < s.NumNodes(); i++ {
				for k := range s.Out(i) {
					e.F(s.OutWeight(i, k))
				}
			}
		}
	}},
	{"graphalg.IDom/Dom/DomFrontier", []string{"graphalg.IDom", "graphalg.Dom", "graphalg.DomFrontier", "graphalg.DomTree.IDom", "graphalg.DomTree.NumNodes", "graphalg.DomTree.In", "graphalg.DomTree.Out"}, "graphalg", func(b *bundle, e *enc) {
		e.Is(graphalg.IDom(b.bi, b.root))
		t := graphalg.Dom(b.idom)
		e.I(t.NumNodes())
		for i := 0; i < t.NumNodes(); i++ {
			e.I(t.IDom(i))
			e.Is(t.In(i))
			e.Is(t.Out(i))
		}
		e.Iss(graphalg.DomFrontier(b.bi, b.root, b.idom))
		e.Iss(graphalg.DomFrontier(b.bi, b.root, nil))
	}},
	{"graphalg.NodeMarks.Test/Next", []string{"graphalg.NodeMarks.Test", "graphalg.NodeMarks.Next"}, "graphalg", func(b *bundle, e *enc) {
		for i := b.marks.Next(-1); i >= 0; i = b.marks.Next(i) {
			e.I(i)
			e.B(b.marks.Test(i))
			e.B(b.marks.Test(i + 1))
		}
	}},
	// ---- graphout
	{"graphout.Dot", []string{"graphout.Dot.Sprint", "graphout.Dot.Fprint", "graphout.DotString"}, "graphout", func(b *bundle, e *enc) {
		d := graphout.Dot{Name: "g \"x\"", Label: func(n int) string { return b.labels[n] },
			EdgeAttrs: func(n, ed int) []graphout.DotAttr {
				return []graphout.DotAttr{{Name: "weight", Val: ed}, {Name: "label", Val: b.labels[n]}}
			}}
		e.S(d.Sprint(b.g))
		e.S(graphout.Dot{}.Sprint(b.g))
		gn := b.g.NumNodes()
		d2 := graphout.Dot{Label: func(n int) string { return b.labels[n] },
			NodeAttrs: func(n int) []graphout.DotAttr { return b.attrTab[2*n : 2*n+1] },
			EdgeAttrs: func(n, ed int) []graphout.DotAttr { k := (n*7 + ed) % gn; return b.attrTab[2*k : 2*k+1] }}
		e.S(d2.Sprint(b.g))
		e.S(graphout.DotString(b.labels[0]))
	}},
}

// runEntry performs one call with panic capture.
func runEntry(en *entry, b *bundle) (res []uint64, panicked bool, pv any) {
	return runEntryO(en, b, false, 0)
}

// runEntryO performs the call with a given evaluation order inside the entry.
func runEntryO(en *entry, b *bundle, rev bool, rot int) (res []uint64, panicked bool, pv any) {
	e := enc{rev: rev, rot: rot}
	panicked, pv = mon.Call(func() { en.call(b, &e) })
	return e.u, panicked, pv
}

// c20Digests runs the inventory over a fixed list of bundles and returns one
// digest per (bundle, entry). With rev the bundles, the entries and the calls
// inside each entry are evaluated in the opposite order: every function must
// return the same bits "whatever calls were made before", so the digests of
// two processes that differ only in call order must be identical.
func c20Digests(seed uint64, rev bool, m int) map[string]uint64 {
	out := map[string]uint64{}
	ne := len(c20Inventory)
	for bi := 0; bi < m; bi++ {
		i := bi
		if rev {
			i = m - 1 - bi
		}
		sd := mon.NewRand(seed, 0xd16, uint64(i)).Uint64() | 1
		if i == 2 {
			sd &^= 31
		}
		if i%8 == 4 {
			sd = c20LargeSeed(sd, 3+i/8) // a large-input bundle, sizes free
		}
		b := newBundle(sd)
		for ej := 0; ej < ne; ej++ {
			j := ej
			if rev {
				j = ne - 1 - ej
			}
			en := &c20Inventory[j]
			rot := 0
			if rev {
				rot = 3
			}
			u, p, _ := runEntryO(en, b, rev, rot)
			h := mon.NewHasher().B(p)
			for _, x := range u {
				h = h.U(x)
			}
			out[fmt.Sprintf("%d/%s", i, en.name)] = h.Sum()
		}
	}
	return out
}

// c20CrossProcess compares this process's digests (forward order) with those
// of a second process of the same binary that evaluates everything in the
// opposite order. A process-wide cache whose content depends on which of two
// equivalent requests came first shows up here and nowhere else (within one
// process such a cache is self-consistent).
func c20CrossProcess(r *mon.Run) {
	m := r.Pick(6, 24)
	fwd := c20Digests(r.Seed, false, m)
	cmd := exec.Command(os.Args[0], "-test.run", "^TestMonitor$", "-test.timeout", "0")
	cmd.Env = append(os.Environ(), "VERIF_STAGE=digest", "VERIF_PROP=C20", fmt.Sprintf("VERIF_SEED=%d", r.Seed), fmt.Sprintf("VERIF_C20_M=%d", m), "GORACE=")
	outb, err := cmd.Output()
	other := map[string]uint64{}
	for _, line := range strings.Split(string(outb), "\n") {
		var k string
		var v uint64
		if strings.HasPrefix(line, "DIGEST ") {
			parts := strings.SplitN(line[7:], " ", 2)
			if len(parts) == 2 {
				fmt.Sscanf(parts[0], "%x", &v)
				k = parts[1]
				other[k] = v
			}
		}
	}
	if len(other) != len(fwd) {
		r.Inconclusive(fmt.Sprintf("cross-process stage: second process returned %d digests, expected %d (%v)", len(other), len(fwd), err))
		return
	}
	r.Serial("cross-process-order", 1, func(w *mon.W, _ int) {
		w.Hit("cross-process-order")
		for k, v := range fwd {
			w.Eval("cross-process digest")
			if other[k] != v {
				w.Violate("order-dependent", fmt.Sprintf("%s: a process that made the same calls in the opposite order obtained different bits for this entry (results depend on the calls made before)", k), c20Case{0, k})
			}
		}
		w.Distinct(uint64(m) + 77)
	})
	r.Extra("cross_process_digests_compared", len(fwd))
}

func findEntry(name string) *entry {
	for i := range c20Inventory {
		if c20Inventory[i].name == name {
			return &c20Inventory[i]
		}
	}
	return nil
}

// c20One: guard + determinism for one (bundle, entry): call, check inputs,
// run every entry on an unrelated bundle, call again, compare.
func c20One(w *mon.W, seed, otherSeed uint64, only string) {
	b := newBundle(seed)
	other := newBundle(otherSeed)
	w.HitIf(b.big, "big-bundle")
	b.hitSizes(w)
	if len(b.damage) > 0 {
		w.Violate("input-modified", fmt.Sprintf("library calls made while the inputs were set up (fits, closures, dominators, subgraphs on freshly carved arrays) modified: %s", strings.Join(b.damage, ", ")), c20Case{seed, ""})
	}
	first := map[string][]uint64{}
	for i := range c20Inventory {
		en := &c20Inventory[i]
		if only != "" && en.name != only {
			continue
		}
		cs := c20Case{seed, en.name}
		before := b.snapshot()
		res, p, pv := runEntry(en, b)
		w.Eval("guard:" + en.pkg)
		w.Hit("entry:" + en.name)
		if p {
			w.Violate("panic", fmt.Sprintf("%s panicked on a well-formed input bundle: %v", en.name, pv), cs)
			continue
		}
		after := b.snapshot()
		var changed []string
		for k, v := range before {
			if after[k] != v {
				changed = append(changed, k)
			}
		}
		sort.Strings(changed)
		if len(changed) > 0 {
			w.Violate("input-modified", fmt.Sprintf("%s modified its input(s): %s", en.name, strings.Join(changed, ", ")), cs)
			// rebuild so later entries see pristine inputs
			b = newBundle(seed)
		}
		first[en.name] = res
	}
	// unrelated intervening calls into every package
	for i := range c20Inventory {
		runEntry(&c20Inventory[i], other)
		w.Eval("intervening")
	}
	for i := range c20Inventory {
		en := &c20Inventory[i]
		f, ok := first[en.name]
		if !ok {
			continue
		}
		res, p, pv := runEntry(en, b)
		w.Eval("repeat:" + en.pkg)
		if p {
			w.Violate("panic", fmt.Sprintf("%s panicked when repeated: %v", en.name, pv), c20Case{seed, en.name})
			continue
		}
		if !equalU(f, res) {
			w.Violate("nondeterministic", fmt.Sprintf("%s: a repeated call with equal arguments (after unrelated calls into every package) returned different bits (%d vs %d words%s)", en.name, len(f), len(res), firstDiff(f, res)), c20Case{seed, en.name})
		}
	}
	// buffer reuse: the caller overwrites its arrays in place with other
	// numbers (same lengths, same addresses) and calls again. The results
	// must be those of a never-used twin whose arrays were given the same
	// numbers before its first call: anything remembered by address or
	// length alone shows here.
	if only == "" || strings.HasPrefix(only, "refill:") {
		twin := newBundle(seed)
		w.Hit("buffers-refilled-in-place")
		for i := range c20Inventory {
			en := &c20Inventory[i]
			if only != "" && "refill:"+en.name != only {
				continue
			}
			// the entry's last call before the refill is on the very arrays
			// it is called on again right after it (nothing in between that
			// could push a remembered result out)
			runEntry(en, b)
			b.refill(i%2 == 0)
			twin.refill(i%2 == 0)
			got, p2, pv := runEntry(en, b)
			want, p1, _ := runEntry(en, twin)
			w.Eval("refill:" + en.pkg)
			if p2 && !p1 {
				w.Violate("panic", fmt.Sprintf("%s panicked after the inputs were refilled in place: %v", en.name, pv), c20Case{seed, "refill:" + en.name})
			} else if !p1 && !equalU(want, got) {
				w.Violate("stale-after-refill", fmt.Sprintf("%s: after the caller overwrote its arrays in place with other numbers, the call returned something else than on a fresh twin holding those numbers%s", en.name, firstDiff(want, got)), c20Case{seed, "refill:" + en.name})
			}
		}
	}
	if w.WantSample() {
		w.Sample(map[string]any{"bundle_seed": seed, "entries": len(first), "n_xs": len(b.xs), "graph_nodes": b.g.NumNodes(), "result_words_MannWhitneyUTest": len(first["MannWhitneyUTest"])})
	}
}

func firstDiff(a, b []uint64) string {
	for i := 0; i < len(a) && i < len(b); i++ {
		if a[i] != b[i] {
			return fmt.Sprintf(", first difference at word %d: %#x vs %#x", i, a[i], b[i])
		}
	}
	return ""
}

// exportedAPI lists "pkg.Func" and "pkg.Type.Method" for the library's
// packages by parsing its source (evidence only: which exports have no
// inventory entry).
func exportedAPI(root string) []string {
	var out []string
	for _, p := range []string{"stats", "mathx", "vec", "fit", "scale", "graph", "graph/graphalg", "graph/graphout"} {
		fset := token.NewFileSet()
		pkgs, err := parser.ParseDir(fset, filepath.Join(root, p), func(fi os.FileInfo) bool { return !strings.HasSuffix(fi.Name(), "_test.go") }, 0)
		if err != nil {
			continue
		}
		for _, pkg := range pkgs {
			for _, f := range pkg.Files {
				for _, d := range f.Decls {
					fd, ok := d.(*ast.FuncDecl)
					if !ok || !fd.Name.IsExported() {
						continue
					}
					name := filepath.Base(p) + "."
					if fd.Recv != nil && len(fd.Recv.List) == 1 {
						t := fd.Recv.List[0].Type
						if s, ok := t.(*ast.StarExpr); ok {
							t = s.X
						}
						id, ok := t.(*ast.Ident)
						if !ok || !id.IsExported() {
							continue
						}
						name += id.Name + "."
					}
					out = append(out, name+fd.Name.Name)
				}
			}
		}
	}
	sort.Strings(out)
	return out
}

func c20Run(r *mon.Run) {
	r.Rule("input bundles: unsorted slices with ties, weighted/unweighted Samples, KDEs (non-zero Bandwidth), filled histograms and NodeMarks, scales, a random multigraph with unsorted adjacency lists and duplicates plus a shuffled twin, dominator inputs, subgraph selections, Dot labels with every escaped character; every slice carved out of a canaried backing array with spare capacity. Each inventory entry is called on each bundle (guard), the whole inventory is then run on an unrelated bundle, and the entry is called again (determinism). Concurrency stage: race-detector build, 16 goroutines, same shared bundles. Large-input bundles (in the guard, determinism, refill, concurrent, race-detector and cross-process stages alike): each family of entry points gets its own size, log-uniform or at / just beyond a round number (powers of two, 1-2-5 x 10^k; offsets -1..+2): slices, fits and LOESS fits 400..131072 values (LOESS windows 120..98000 points, on sorted and on shuffled abscissae), paired samples to 65536, Samples 400..32768, KDE Samples and U-test samples to 8192, graphs 1300..8192 nodes (a quarter of these ranges in the quick tier's race-detector runs); the first bundle of each stage has every size in the upper half of its range; the data are full-precision values of mixed magnitude (1e-2..1e5, non-integer weights) with ties, so that a sum depends on the order of its additions; each reduction (vec.Sum, Sample.Sum/Weight, Mean) is also called six times in a row. Result slices of more than 4096 values are compared by a 64-bit digest of their bits. Non-trivial = an inventory entry executed on a bundle; distinct by (bundle seed).")
	r.Assume("documented in-place operations (Sort, Reverse, Nice, SetClamp, Add, Combine, Mark, Unmark, lazily filled KDE Bandwidth) are not in the inventory or are applied to private copies", "the race detector reports races among accesses that both occur unsynchronised in one run")
	stage := os.Getenv("VERIF_STAGE")
	for i := range c20Inventory {
		r.Gate("entry:" + c20Inventory[i].name)
	}
	// which exports does the inventory not touch (informational)
	repo := os.Getenv("VERIF_REPO")
	if repo == "" {
		repo = "/repo"
	}
	covered := map[string]bool{}
	for _, en := range c20Inventory {
		for _, c := range en.covers {
			covered[c] = true
		}
	}
	inPlace := map[string]bool{"stats.Sample.Sort": true, "graphalg.Reverse": true, "scale.Linear.Nice": true, "scale.Log.Nice": true, "scale.Linear.SetClamp": true, "scale.Log.SetClamp": true,
		"stats.LinearHist.Add": true, "stats.LogHist.Add": true, "stats.StreamStats.Add": true, "stats.StreamStats.Combine": true, "graphalg.NodeMarks.Mark": true, "graphalg.NodeMarks.Unmark": true}
	var uncovered, documentedInPlace []string
	for _, x := range exportedAPI(repo) {
		switch {
		case inPlace[x]:
			documentedInPlace = append(documentedInPlace, x)
		case !covered[x]:
			uncovered = append(uncovered, x)
		}
	}
	r.Extra("inventory_entries", len(c20Inventory))
	r.Extra("exports_without_inventory_entry", uncovered)
	r.Extra("documented_in_place_operations_excluded", documentedInPlace)

	if stage == "digest" {
		m, _ := strconv.Atoi(os.Getenv("VERIF_C20_M"))
		for k, v := range c20Digests(r.Seed, true, m) {
			fmt.Printf("DIGEST %x %s\n", v, k)
		}
		os.Exit(0)
	}
	r.Gate("cross-process-order")
	if stage == "race" {
		c20Concurrent(r, true)
		r.Serial("cross-process-order", 1, func(w *mon.W, _ int) { w.Note("cross-process-order") })
		return
	}
	r.Gate("big-bundle", "buffers-refilled-in-place", "large-input-bundle", "large:slices>=2^16", "large:Samples>=2^14", "large:LOESS-window>=5000", "large:KDE>=2^12", "large:U-test-samples>=2^12", "large:graph>=2^12")
	// the concurrent stage comes first: the process has made no library call yet
	c20Concurrent(r, false)
	nb := r.Pick(150, 1500)
	r.Parallel("guard+determinism", nb, func(w *mon.W, i int) {
		seed := w.Rng.Uint64() | 1
		if i%25 == 7 {
			seed &^= 31 // a big bundle
		}
		c20One(w, seed, seed^0x9e3779b97f4a7c15, "")
		w.Distinct(seed)
	})
	// large-input pass: the same judge on bundles of 10^3..10^5 values; the
	// first ones have every size in the upper half of its range
	r.Parallel("guard+determinism-large", r.Pick(4, 40), func(w *mon.W, i int) {
		seed := c20LargeSeed(w.Rng.Uint64(), i)
		c20One(w, seed, seed^0x9e3779b97f4a7c15, "")
		w.Distinct(seed)
	})
	c20CrossProcess(r)
}

// c20LargeSeed turns x into the seed of a large-input bundle. Number 0 of a
// stage has all sizes in the upper half of their ranges, 1 the slices, fits and
// LOESS windows, 2 the Samples, KDEs, U-test samples and the graph; from 3 on
// the sizes are free.
func c20LargeSeed(x uint64, i int) uint64 {
	x = x&^255 | 16
	switch i {
	case 0:
		x |= 32 | 64
	case 1:
		x |= 32
	case 2:
		x |= 64
	}
	return x
}

// c20Concurrent runs the inventory from 16 goroutines on shared bundles. With
// race=true (race-detector build) nothing but the start channel and the
// WaitGroup synchronises the goroutines. With race=false the calls are
// stamped from one atomic counter so that overlapping call pairs can be
// counted (evidence that schedules really were concurrent).
func c20Concurrent(r *mon.Run, race bool) {
	const G = 16
	nb := r.Pick(6, 24)
	if !race {
		nb = r.Pick(4, 12)
	}
	// large-input bundles among the shared ones. Race-detector build (about
	// ten times slower): the first has the slices, fits and LOESS windows in
	// the upper half of their size range (the sorting families free), then the
	// other way round, then all free; otherwise the first has everything in
	// the upper half.
	nl := r.Pick(1, 3)
	bundles := make([]*bundle, nb+nl)
	for i := range bundles {
		sd := mon.NewRand(r.Seed, 0xc0c, uint64(i)).Uint64() | 1
		if i == 1 {
			sd &^= 31 // one big bundle among the shared ones
		}
		if i >= nb {
			k := i - nb
			if race {
				k++
			}
			sd = c20LargeSeed(sd, k)
			if race && r.Pick(0, 1) == 0 {
				sd |= 128 // a quarter of the size ranges: the race-detector build is slow
			}
		}
		bundles[i] = newBundle(sd)
	}
	nb = len(bundles)
	ne := len(c20Inventory)
	// The shared bundles are COLD: nothing has been called on them (nor, in
	// the race stage, on the library at all) before the goroutines start, so
	// any first-use initialisation, per object or per package, happens under
	// concurrency. The sequential reference results and the reference
	// snapshots come afterwards from twin bundles built from the same seeds.
	type stamp struct{ t0, t1 int64 }
	results := make([][][][]uint64, G)
	panics := make([][]string, G)
	stamps := make([][]stamp, G)
	var clock int64
	start := make(chan struct{})
	var wg sync.WaitGroup
	for g := 0; g < G; g++ {
		wg.Add(1)
		go func(g int) {
			defer wg.Done()
			res := make([][][]uint64, nb)
			var st []stamp
			var pn []string
			<-start
			for rep := 0; rep < 2; rep++ {
				for k := 0; k < nb; k++ {
					bi := (k + g) % nb // different goroutines start on different bundles and meet on all of them
					b := bundles[bi]
					if rep == 0 {
						res[bi] = make([][]uint64, ne)
					}
					for j := 0; j < ne; j++ {
						ei := (j + g*7) % ne
						var t0 int64
						if !race {
							t0 = atomic.AddInt64(&clock, 1)
						}
						u, p, pv := runEntryO(&c20Inventory[ei], b, g%2 == 1, g)
						if !race {
							st = append(st, stamp{t0, atomic.AddInt64(&clock, 1)})
						}
						if p {
							pn = append(pn, fmt.Sprintf("%s: %v", c20Inventory[ei].name, pv))
						}
						res[bi][ei] = u
					}
				}
			}
			results[g], panics[g], stamps[g] = res, pn, st
		}(g)
	}
	close(start)
	wg.Wait()
	seq := make([][][]uint64, nb)
	snaps := make([]map[string]uint64, nb)
	for bi := range bundles {
		twin := newBundle(bundles[bi].seed)
		snaps[bi] = twin.snapshot()
		seq[bi] = make([][]uint64, ne)
		for ei := range c20Inventory {
			seq[bi][ei], _, _ = runEntry(&c20Inventory[ei], twin)
		}
	}

	class := "concurrent"
	if race {
		class = "concurrent-race-detector"
	}
	r.Serial(class, 1, func(w *mon.W, _ int) {
		w.Hit(class)
		for _, b := range bundles {
			b.hitSizes(w)
		}
		for g := 0; g < G; g++ {
			for _, p := range panics[g] {
				w.Violate("panic-concurrent", "concurrent call panicked: "+p, c20Case{0, ""})
			}
			for bi := range bundles {
				for ei := range c20Inventory {
					w.Eval(class + ":" + c20Inventory[ei].pkg)
					if !equalU(results[g][bi][ei], seq[bi][ei]) {
						w.Violate("concurrent-result", fmt.Sprintf("%s returned different bits when called concurrently from goroutine %d than sequentially%s", c20Inventory[ei].name, g, firstDiff(seq[bi][ei], results[g][bi][ei])), c20Case{bundles[bi].seed, c20Inventory[ei].name})
					}
				}
			}
		}
		for bi, b := range bundles {
			after := b.snapshot()
			for k, v := range snaps[bi] {
				if after[k] != v {
					w.Violate("input-modified-concurrent", fmt.Sprintf("shared input %s changed during the concurrent stage", k), c20Case{b.seed, ""})
				}
			}
			// the shared bundle, used sequentially once everything is quiet,
			// still answers like its never-shared twin
			for ei := range c20Inventory {
				w.Eval(class + ":after-join")
				u, p, pv := runEntry(&c20Inventory[ei], b)
				if p {
					w.Violate("panic-after-concurrent", fmt.Sprintf("%s panicked on a bundle that had been used concurrently: %v", c20Inventory[ei].name, pv), c20Case{b.seed, c20Inventory[ei].name})
				} else if !equalU(u, seq[bi][ei]) {
					w.Violate("state-after-concurrent", fmt.Sprintf("%s on a bundle that had been used concurrently differs from the same call on a fresh twin%s", c20Inventory[ei].name, firstDiff(seq[bi][ei], u)), c20Case{b.seed, c20Inventory[ei].name})
				}
			}
		}
		for i := range c20Inventory {
			w.Hit("entry:" + c20Inventory[i].name)
		}
		w.Distinct(uint64(nb)*1000003 + uint64(G))
	})
	if !race {
		// count overlapping call pairs between different goroutines
		type iv struct {
			t0, t1 int64
			g      int
		}
		var all []iv
		for g := range stamps {
			for _, s := range stamps[g] {
				all = append(all, iv{s.t0, s.t1, g})
			}
		}
		sort.Slice(all, func(i, j int) bool { return all[i].t0 < all[j].t0 })
		overlaps := int64(0)
		for i := range all {
			for j := i + 1; j < len(all) && all[j].t0 < all[i].t1; j++ {
				if all[j].g != all[i].g {
					overlaps++
				}
			}
		}
		r.Extra("overlapping_call_pairs_observed", overlaps)
		r.Extra("concurrent_calls", len(all))
		if overlaps < 1000 {
			r.Inconclusive(fmt.Sprintf("only %d overlapping concurrent call pairs were observed", overlaps))
		}
	} else {
		r.Extra("race_stage_concurrent_calls", G*nb*ne*2)
	}
}
