#!/usr/bin/env python3
"""Regenerates MANIFEST.json from the table below (kept in one place so the
manifest is always valid and in step with what is built)."""
import json, sys
built = json.load(open('/verif/built.json'))
props = [json.loads(l) for l in open('/verif/properties.jsonl')]
checks, na = [], []
for p in props:
    pid = p['id']
    b = built.get(pid)
    if not b:
        na.append({"property_id": pid, "reason": "monitor not built yet in this round (planned: DESIGN.md section 5, %s); runtime monitoring applies" % pid})
        continue
    checks.append({
        "property_id": pid,
        "quick_cmd": "./check %s quick" % pid,
        "thorough_cmd": "./check %s thorough" % pid,
        "evidence_file": "/verif/evidence/%s.json" % pid,
        "replay_cmd_template": "./check --replay {path}",
        "engine": "verifmon",
        "level_claimed": {"category": "exploration", "text": b["text"], "design_ref": "DESIGN.md section 5, " + pid},
        "level_note": b["note"],
        "technique": b["technique"],
    })
m = {
    "version": 1,
    "setup_cmd": "./check setup",
    "hooks": {
        "guard": "verif",
        "enable": "no source hooks are needed: all observation is at the exported API; the harness module replaces github.com/aclements/go-moremath with /repo and is rebuilt from its working tree by every check (go test -c -cover -coverpkg, plus -race for C20)",
        "baseline_off_cmd": "cd /repo && GOFLAGS=-mod=readonly go test -vet=off -count=1 ./...",
        "source_commits": [],
        "add_only": True,
    },
    "engines": [{"name": "verifmon", "path": "/verif/harness", "serves_properties": [c["property_id"] for c in checks],
                 "kind_free_text": "Go runtime monitors: API-boundary event recording, reference-model oracles, metamorphic law checkers, lock-step shadow models, argument-integrity guards, panic capture, logical step budgets, Go race detector"}],
    "checks": checks,
    "not_applicable": na,
    "notes": "Exit 0 held / 1 violation (VIOLATION lines, replay files under /verif/replays) / 2 inconclusive. Known findings: /verif/known_findings.json. VERIF_SEED selects the random sub-streams; enumerated parts are seed independent.",
}
json.dump(m, open('/verif/MANIFEST.json', 'w'), indent=1)
print("checks:", len(checks), "not_applicable:", len(na))
