#!/usr/bin/env python3
"""revalidate.py [--dir <verif dir>] [--kind seeded|equivalents|both] [--jobs N] [--only Cxx[,Cyy]] [--checks Cxx[,Cyy]]

Re-runs the current checks against every kept seeded defect and every kept
behaviour-preserving rewrite (self-contained: patch.diff and meta.json under
<dir>/seeded and <dir>/equivalents; nothing from /tmp/seed is needed).

  seeded/<name>:       every check recorded in meta.confirmation.checks is run
                       against /repo + patch (scratch worktree, VERIF_REPO);
                       expectation: every check that caught it still exits 1.
  equivalents/<name>:  every check recorded in meta.evaluation.checks is run;
                       expectation: all exit 0.

The result is stored in meta.json under "revalidated" and summarised on stdout.
/repo itself is never modified."""
import json, os, subprocess, sys, tempfile, glob
from concurrent.futures import ThreadPoolExecutor

ENV = dict(os.environ, GOFLAGS='-mod=readonly', GOPROXY='off', GOSUMDB='off', GOTOOLCHAIN='local')

def sh(cmd, cwd=None, env=ENV, timeout=14400):
    r = subprocess.run(cmd, shell=True, cwd=cwd, env=env, capture_output=True, text=True, timeout=timeout, errors='replace')
    return r.returncode, r.stdout + r.stderr

def one(vdir, kind, d, head, onlychecks=None):
    name = os.path.basename(d)
    mp = os.path.join(d, 'meta.json')
    meta = json.load(open(mp))
    if kind == 'seeded':
        checks = sorted(meta.get('confirmation', {}).get('checks', {}))
    else:
        checks = sorted(meta.get('evaluation', {}).get('checks', {}))
    if not checks:
        return name, None, 'no recorded checks'
    prev = {}
    if onlychecks:
        prev = dict(meta.get('revalidated', {}).get('checks', {}))
        checks = [p for p in checks if p in onlychecks]
        if not checks:
            return name, 'skip', ''
    os.makedirs('/tmp/mut', exist_ok=True)
    wt = tempfile.mkdtemp(prefix='rv', dir='/tmp/mut'); os.rmdir(wt)
    subprocess.run(['git', '-C', '/repo', 'worktree', 'add', '-q', '--detach', wt, 'HEAD'], check=True)
    res = dict(prev)
    try:
        rc, out = sh('git apply %s' % os.path.join(d, 'patch.diff'), cwd=wt)
        if rc != 0:
            # the library has moved on since the patch was written (later fix:
            # commits): try a three-way application before giving up
            rc, out = sh('git apply --3way %s && git reset -q' % os.path.join(d, 'patch.diff'), cwd=wt)
        if rc != 0:
            return name, None, 'patch does not apply any more: ' + out[-200:]
        for p in checks:
            rc, out = sh('./check %s quick' % p, cwd=vdir, env=dict(os.environ, VERIF_REPO=wt))
            kinds = sorted(set(l.split('kind=')[1].split()[0] for l in out.splitlines() if l.strip().startswith('kind=')))
            if 'race_reports=' in out and rc == 1 and not kinds:
                kinds = ['race-detector-report']
            res[p] = {'exit': rc, 'violation_kinds': kinds[:12]}
    finally:
        subprocess.run(['git', '-C', '/repo', 'worktree', 'remove', '--force', wt])
    rv = {'harness_commit': head, 'checks': res}
    if kind == 'seeded':
        rv['caught_by'] = [p for p, c in res.items() if c['exit'] == 1]
        rv['inconclusive'] = [p for p, c in res.items() if c['exit'] == 2]
    else:
        rv['alarms'] = [p for p, c in res.items() if c['exit'] != 0]
    meta['revalidated'] = rv
    json.dump(meta, open(mp, 'w'), indent=1)
    return name, rv, ''

def main():
    vdir, kind, jobs, only, onlychecks = '/verif', 'both', 4, None, None
    a = sys.argv[1:]
    while a:
        x = a.pop(0)
        if x == '--dir': vdir = a.pop(0)
        elif x == '--kind': kind = a.pop(0)
        elif x == '--jobs': jobs = int(a.pop(0))
        elif x == '--only': only = a.pop(0).split(',')
        elif x == '--checks': onlychecks = a.pop(0).split(',')
    head = subprocess.run(['git', '-C', vdir, 'rev-parse', '--short', 'HEAD'], capture_output=True, text=True).stdout.strip()
    dirty = subprocess.run(['git', '-C', vdir, 'status', '--porcelain', 'harness', 'check', 'c20race.sh'], capture_output=True, text=True).stdout.strip()
    if dirty:
        head += '+uncommitted'
    work = []
    for k in (['seeded', 'equivalents'] if kind == 'both' else [kind]):
        for d in sorted(glob.glob(os.path.join(vdir, k, '*'))):
            if not os.path.isfile(os.path.join(d, 'patch.diff')):
                continue
            if only and os.path.basename(d).split('-')[0] not in only:
                continue
            work.append((k, d))
    bad = 0
    with ThreadPoolExecutor(max_workers=jobs) as ex:
        futs = [(k, d, ex.submit(one, vdir, k, d, head, onlychecks)) for k, d in work]
        for k, d, f in futs:
            name, rv, err = f.result()
            if rv == 'skip':
                continue
            if rv is None:
                print('%-12s %-10s ERROR %s' % (k, name, err)); bad += 1
                continue
            if k == 'seeded':
                meta = json.load(open(os.path.join(d, 'meta.json')))
                was = meta.get('confirmation', {}).get('caught_by', [])
                lost = [p for p in was if p in rv['checks'] and p not in rv['caught_by']]
                flag = ''
                if lost:
                    flag = ' REGRESSION: no longer caught by %s' % lost; bad += 1
                elif not rv['caught_by']:
                    flag = ' (not caught; inconclusive: %s)' % rv['inconclusive']
                print('%-12s %-10s caught_by=%s%s' % (k, name, rv['caught_by'], flag))
            else:
                flag = ''
                if rv['alarms']:
                    flag = ' FALSE ALARM'; bad += 1
                print('%-12s %-10s alarms=%s%s' % (k, name, rv['alarms'], flag))
            sys.stdout.flush()
    print('revalidation finished: %d entries, %d problems' % (len(work), bad))
    sys.exit(1 if bad else 0)

main()
